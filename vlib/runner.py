"""Solver-based checking driver: builds CBMC harness instances from /repo's current tree,
runs them in parallel, replays counterexamples and reachability witnesses natively against the
real library, applies known findings, writes evidence and prints the verdict lines."""
import fnmatch
import json
import os
import re
import shutil
import subprocess
import sys
import tempfile
import time
from concurrent.futures import ThreadPoolExecutor

VERIF = os.path.dirname(os.path.dirname(os.path.abspath(__file__)))
REPO = os.environ.get("VERIF_REPO", "/repo")
ENV = os.path.join(VERIF, "env")
HARN = os.path.join(VERIF, "harness")

CBMC_BASE = ["--unwinding-assertions", "--no-malloc-may-fail", "--drop-unused-functions",
             "--object-bits", "12", "--pointer-overflow-check", "--signed-overflow-check",
             "--undefined-shift-check", "--conversion-check"]
CBMC_BASE.remove("--conversion-check")  # the library narrows deliberately (e.g. tolower -> char); checked by oracles instead

GOTOCC_BASE = ["-DVERIF_CBMC", "-D_GNU_SOURCE", "-D_REENTRANT=1", "-D__NO_CTYPE",
               "-include", os.path.join(ENV, "scale.h"),
               "-I" + os.path.join(REPO, "include"), "-I" + os.path.join(REPO, "lib"),
               "-I" + os.path.join(REPO, "util"), "-I" + ENV, "-I" + HARN]
NATIVE_BASE = ["gcc", "-g", "-O0", "-fsanitize=address,undefined", "-fno-sanitize-recover=undefined",
               "-fno-omit-frame-pointer", "-D_GNU_SOURCE", "-D_REENTRANT=1", "-w",
               "-I" + os.path.join(REPO, "include"), "-I" + os.path.join(REPO, "lib"),
               "-I" + os.path.join(REPO, "util"), "-I" + ENV, "-I" + HARN]


class Instance:
    """One CBMC query family member: a harness compiled with concrete -D parameters."""

    def __init__(self, name, harness, defines=None, unwind=10, unwindset=None, flags=None,
                 envs=("libc_model.c", "vfs_cbmc.c"), timeout=600, mem_gb=12, functions="",
                 bounds="", leak_check=False, native=True, expect_reach=None, extra_src=(), native_src=("vfs_native.c",),
                 native_timeout=20, sample_decoder=None, gen_files=None):
        self.name = name
        self.harness = harness
        self.defines = dict(defines or {})
        self.unwind = unwind
        self.unwindset = list(unwindset or [])   # (file_regex, source_line_regex, N)
        self.flags = list(flags or [])
        self.envs = list(envs)
        self.timeout = timeout
        self.mem_gb = mem_gb
        self.functions = functions
        self.bounds = bounds
        self.leak_check = leak_check
        self.native = native
        self.expect_reach = expect_reach  # None = all witness goals must be reachable; else list of labels that must
        self.extra_src = list(extra_src)
        self.native_src = list(native_src)
        self.native_timeout = native_timeout
        self.sample_decoder = sample_decoder
        self.gen_files = dict(gen_files or {})
        self.functional_only = False


def dflags(defs):
    out = []
    for k, v in defs.items():
        out.append("-D%s" % k if v is None else "-D%s=%s" % (k, v))
    return out


def run(cmd, timeout=None, mem_gb=None, cwd=None, env=None):
    pre = ""
    if mem_gb:
        pre = "ulimit -v %d; " % int(mem_gb * 1024 * 1024)
    t0 = time.time()
    try:
        p = subprocess.run(["bash", "-c", pre + 'exec "$@"', "sh"] + cmd, stdout=subprocess.PIPE,
                           stderr=subprocess.PIPE, timeout=timeout, cwd=cwd, env=env)
        return p.returncode, p.stdout.decode("utf-8", "replace"), p.stderr.decode("utf-8", "replace"), time.time() - t0
    except subprocess.TimeoutExpired as e:
        return -9, (e.stdout or b"").decode("utf-8", "replace"), "TIMEOUT", time.time() - t0


def resolve_unwindset(gb, inst, workdir):
    """Map (file regex, source-line regex, N) to CBMC loop ids of the current build."""
    inst_unwindset = list(inst.unwindset) + [(r"verif\.h", r"i_ < NIN", 1024), (r"libc_model\.c", r"for \(int k = 15; k >= 0", 17), (r"libc_model\.c", r"for \(int k = 0; k < 16", 17)]
    rc, out, err, _ = run(["cbmc", gb, "--show-loops", "--json-ui", "--drop-unused-functions"], timeout=120)
    loops = []
    try:
        for item in json.loads(out):
            if isinstance(item, dict) and "loops" in item:
                loops = item["loops"]
    except Exception:
        pass
    cache = {}
    res, missing = [], []
    for (fre, lre, n) in inst_unwindset:
        hit = False
        for lp in loops:
            sl = lp.get("sourceLocation", {})
            f, ln = sl.get("file", ""), int(sl.get("line", "0") or 0)
            if not re.search(fre, f):
                continue
            path = f if os.path.isabs(f) else os.path.join(sl.get("workingDirectory", ""), f)
            if path not in cache:
                try:
                    cache[path] = open(path, errors="replace").read().split("\n")
                except Exception:
                    cache[path] = []
            text = cache[path][ln - 1] if 0 < ln <= len(cache[path]) else ""
            if re.search(lre, text):
                res.append("%s:%d" % (lp["name"], n))
                hit = True
        if not hit:
            missing.append((fre, lre))
    return res, missing


def extract_inputs(trace):
    vals = {}
    for st in trace or []:
        if st.get("stepType") != "assignment":
            continue
        lhs = st.get("lhs", "")
        m = re.match(r"^IN\[(\d+)l*\]$", lhs)
        v = st.get("value", {})
        if m:
            try:
                vals[int(m.group(1))] = int(v.get("data", "0")) & 255
            except ValueError:
                b = v.get("binary")
                if b:
                    vals[int(m.group(1))] = int(b, 2) & 255
        elif lhs == "IN" and isinstance(v.get("elements"), list):
            for e in v["elements"]:
                try:
                    vals[int(e.get("index", 0))] = int(e.get("value", {}).get("data", "0")) & 255
                except Exception:
                    pass
    n = max(vals) + 1 if vals else 0
    return bytes(vals.get(i, 0) for i in range(n))


class InstanceRun:
    def __init__(self, inst, workroot, prop_id):
        self.inst = inst
        self.prop_id = prop_id
        self.dir = os.path.join(workroot, re.sub(r"[^A-Za-z0-9_.-]", "_", inst.name))
        os.makedirs(self.dir, exist_ok=True)
        self.status = "pending"      # ok | violation | inconclusive
        self.notes = []
        self.failures = []           # dicts: property, description, kind, replay
        self.witnesses = []          # dicts: label, reached(bool), native(str)
        self.obligations = 0
        self.unknown = 0
        self.discharged = 0
        self.solver_s = 0.0
        self.wall_s = 0.0
        self.vars = 0
        self.clauses = 0
        self.steps = 0
        self.samples = []
        self.native_bin = None
        self.native_err = None
        self.cmdline = ""

    # ---- build ----
    def write_gen(self):
        for fn, text in self.inst.gen_files.items():
            with open(os.path.join(self.dir, fn), "w") as f:
                f.write(text)

    def build_goto(self):
        i = self.inst
        self.write_gen()
        srcs = [os.path.join(HARN, i.harness)] + [os.path.join(ENV, e) for e in i.envs] + i.extra_src
        gb = os.path.join(self.dir, "h.gb")
        cmd = ["goto-cc"] + GOTOCC_BASE + ["-I" + self.dir] + dflags(i.defines) + srcs + ["-o", gb]
        rc, out, err, t = run(cmd, timeout=300)
        if rc != 0:
            self.notes.append("goto-cc failed: " + err[-2000:])
            return None
        return gb

    def build_native(self):
        if self.native_bin or self.native_err:
            return self.native_bin
        i = self.inst
        exe = os.path.join(self.dir, "native")
        srcs = [os.path.join(HARN, i.harness)] + [os.path.join(ENV, e) for e in i.native_src]
        self.write_gen()
        scale = ["-include", os.path.join(ENV, "scale_native.h")] if "V_BUFSIZ" in i.defines else []
        cmd = NATIVE_BASE + scale + ["-I" + self.dir] + dflags(i.defines) + srcs + ["-o", exe, "-lm"]
        rc, out, err, t = run(cmd, timeout=300)
        if rc != 0:
            self.native_err = err[-3000:]
            self.notes.append("native build failed: " + self.native_err)
            return None
        self.native_bin = exe
        return exe

    def replay(self, inputs, tag):
        """returns (verdict, dir, stderr): verdict in passed|failed|invalid|hang|nobuild|bound"""
        exe = self.build_native()
        rdir = os.path.join(self.dir, "replay-" + re.sub(r"[^A-Za-z0-9_.-]", "_", tag)[:80])
        os.makedirs(rdir, exist_ok=True)
        with open(os.path.join(rdir, "input.bin"), "wb") as f:
            f.write(inputs)
        if not exe:
            return "nobuild", rdir, self.native_err or ""
        env = dict(os.environ)
        env["ASAN_OPTIONS"] = "detect_leaks=1:abort_on_error=0:exitcode=23:allocator_may_return_null=1"
        env["UBSAN_OPTIONS"] = "print_stacktrace=1:halt_on_error=1"
        root = os.path.join(rdir, "root")
        rc, out, err, t = run([exe, os.path.join(rdir, "input.bin"), root], timeout=self.inst.native_timeout, env=env)
        with open(os.path.join(rdir, "stderr.txt"), "w") as f:
            f.write(err)
        with open(os.path.join(rdir, "cmd.txt"), "w") as f:
            f.write("%s %s %s\n# exit=%s\n" % (exe, os.path.join(rdir, "input.bin"), root, rc))
        if rc == -9:
            return "hang", rdir, err
        if rc == 0:
            return "passed", rdir, err
        if rc == 77:
            return "invalid", rdir, err
        if rc == 78:
            return "bound", rdir, err
        return "failed", rdir, err

    # ---- cbmc ----
    def execute(self):
        t0 = time.time()
        i = self.inst
        gb = self.build_goto()
        if not gb:
            self.status = "inconclusive"
            self.wall_s = time.time() - t0
            return self
        uws, missing = resolve_unwindset(gb, i, self.dir)
        self.unmatched_unwind = missing
        cmd = ["cbmc", gb, "--unwind", str(i.unwind)]
        if uws:
            cmd += ["--unwindset", ",".join(uws)]
        base = list(CBMC_BASE)
        if getattr(i, "functional_only", False):
            # functional harness: the memory-safety obligations are decided by the C04 harnesses on the same code
            base = ["--unwinding-assertions", "--no-malloc-may-fail", "--drop-unused-functions", "--object-bits", "12",
                    "--no-pointer-check", "--no-bounds-check", "--no-pointer-primitive-check", "--no-div-by-zero-check",
                    "--no-signed-overflow-check", "--no-undefined-shift-check", "--no-built-in-assertions"]
        cmd += base + i.flags
        if i.leak_check:
            cmd += ["--memory-leak-check"]
        cmd += ["--trace", "--json-ui", "--verbosity", "8"]
        self.cmdline = " ".join(cmd)
        with open(os.path.join(self.dir, "cbmc_cmd.txt"), "w") as f:
            f.write(self.cmdline + "\n")
        rc, out, err, t = run(cmd, timeout=i.timeout, mem_gb=i.mem_gb)
        with open(os.path.join(self.dir, "cbmc.json"), "w") as f:
            f.write(out)
        if rc == -9:
            self.status = "inconclusive"
            self.notes.append("cbmc timeout after %ds" % i.timeout)
            self.wall_s = time.time() - t0
            return self
        results = None
        try:
            doc = json.loads(out)
        except Exception:
            doc = []
            self.notes.append("cbmc output not parseable (rc=%s): %s" % (rc, (err or out)[-500:]))
        for item in doc:
            if not isinstance(item, dict):
                continue
            if "result" in item:
                results = item["result"]
            mt = item.get("messageText", "")
            m = re.search(r"Runtime Solver: ([0-9.]+)s", mt)
            if m:
                self.solver_s += float(m.group(1))
            m = re.search(r"^(\d+) variables, (\d+) clauses", mt)
            if m:
                self.vars = max(self.vars, int(m.group(1)))
                self.clauses = max(self.clauses, int(m.group(2)))
            m = re.search(r"size of program expression: (\d+) steps", mt)
            if m:
                self.steps = int(m.group(1))
            if item.get("messageType") == "ERROR":
                self.notes.append("cbmc error: " + mt[:300])
        if results is None:
            self.status = "inconclusive"
            if rc != 0:
                self.notes.append("cbmc gave no result (rc=%s; out of memory or internal error)" % rc)
            self.wall_s = time.time() - t0
            return self
        viol, inconcl = False, False
        replay_cache = {}
        for r in results:
            desc = r.get("description", "")
            st = r.get("status", "")
            pname = r.get("property", "")
            if desc.startswith("witness:"):
                label = desc[len("witness:"):].strip()
                w = {"label": label, "reached": st == "FAILURE", "native": "-"}
                if st == "FAILURE" and i.native:
                    inp = extract_inputs(r.get("trace"))
                    verdict, rdir, rerr = self.replay(inp, "witness-" + label)
                    w["native"] = verdict
                    w["input"] = inp.hex()
                    if verdict == "passed":
                        if "REPLAY-REACHED: " + label not in rerr:
                            w["native"] = "passed-but-label-not-reached"
                        self.samples.append({"instance": i.name, "witness": label, "input_hex": inp.hex(),
                                             "decoded": self.decode(inp)})
                    elif verdict in ("failed", "hang"):
                        # the real library violates a harness check on an input CBMC's model accepted
                        why = ""
                        for ln in rerr.split("\n"):
                            if ln.startswith("REPLAY-CHECK-FAILED:") or ln.startswith("SUMMARY: ") or "runtime error:" in ln:
                                why = ln.strip()[:300]
                                break
                        self.failures.append({"property": pname, "description": "native replay of witness '%s' fails although the model passes: %s" % (label, why),
                                              "kind": "native-divergence", "replay": rdir, "confirmed": True,
                                              "stderr": rerr[-1500:], "input_hex": inp.hex(), "decoded": self.decode(inp)})
                        viol = True
                elif st == "FAILURE":
                    inp = extract_inputs(r.get("trace"))
                    w["input"] = inp.hex()
                    self.samples.append({"instance": i.name, "witness": label, "input_hex": inp.hex(), "decoded": self.decode(inp)})
                self.witnesses.append(w)
                continue
            self.obligations += 1
            if st == "SUCCESS":
                self.discharged += 1
                continue
            if st != "FAILURE":
                # CBMC 6 reports UNKNOWN for obligations that come after a failed undefined-behaviour check
                self.unknown += 1
                continue
            # a failed obligation
            is_bound = desc.startswith("bound:") or "unwinding assertion" in desc or ".unwind." in pname or "recursion unwinding" in desc
            is_nobody = ".no-body." in pname
            fail = {"property": pname, "description": desc, "line": r.get("sourceLocation", {}).get("line"),
                    "file": r.get("sourceLocation", {}).get("file"), "function": r.get("sourceLocation", {}).get("function"),
                    "kind": "bound" if is_bound else "nobody" if is_nobody else ("prop" if desc.startswith("prop:") else "builtin")}
            inp = extract_inputs(r.get("trace"))
            fail["input_hex"] = inp.hex()
            fail["decoded"] = self.decode(inp)
            if is_nobody:
                fail["confirmed"] = False
                inconcl = True
                self.failures.append(fail)
                continue
            if i.native:
                gk = (fail["file"], fail["line"], fail["kind"])
                if gk in replay_cache and replay_cache[gk][0] in ("failed", "hang"):
                    verdict, rdir, rerr = replay_cache[gk]
                else:
                    verdict, rdir, rerr = self.replay(inp, pname)
                    replay_cache[gk] = (verdict, rdir, rerr)
                fail["replay"] = rdir
                fail["native"] = verdict
                fail["stderr"] = rerr[-1500:]
                if verdict in ("failed", "hang"):
                    fail["confirmed"] = True
                    viol = True
                elif fail["kind"] == "builtin" and "pointer" in desc and ("overflow" in desc or "pointer arithmetic" in desc or "pointer relation" in desc):
                    fail["confirmed"] = False
                    fail["note"] = "pointer-arithmetic finding without a dereference; not confirmable natively, listed separately"
                    inconcl = True
                else:
                    fail["confirmed"] = False
                    inconcl = True
            else:
                rdir = os.path.join(self.dir, "cex-" + re.sub(r"[^A-Za-z0-9_.-]", "_", pname))
                os.makedirs(rdir, exist_ok=True)
                with open(os.path.join(rdir, "input.bin"), "wb") as f:
                    f.write(inp)
                with open(os.path.join(rdir, "failure.json"), "w") as f:
                    json.dump({k: v for k, v in fail.items()}, f, indent=1)
                fail["replay"] = rdir
                fail["confirmed"] = not is_bound
                if is_bound:
                    inconcl = True
                else:
                    viol = True
            self.failures.append(fail)
        if self.unknown and not any(f["kind"] == "builtin" for f in self.failures):
            inconcl = True
            self.notes.append("%d obligations UNKNOWN without a failed built-in check" % self.unknown)
        elif self.unknown:
            self.notes.append("%d obligations not decided (UNKNOWN) because they follow a failed undefined-behaviour check" % self.unknown)
        # vacuity
        need = i.expect_reach
        for w in self.witnesses:
            if (need is None or w["label"] in need) and not w["reached"]:
                inconcl = True
                self.notes.append("vacuity: witness '%s' not reachable" % w["label"])
            if w["native"] in ("invalid", "nobuild", "bound", "passed-but-label-not-reached"):
                inconcl = True
                self.notes.append("witness '%s' native replay: %s" % (w["label"], w["native"]))
        if not self.witnesses:
            inconcl = True
            self.notes.append("vacuity: harness has no reachability witness")
        self.status = "violation" if viol else ("inconclusive" if inconcl else "ok")
        self.wall_s = time.time() - t0
        return self

    def decode(self, inp):
        if self.inst.sample_decoder:
            try:
                return self.inst.sample_decoder(inp, self.inst)
            except Exception as e:
                return "decoder error: %s" % e
        return None


def load_known(prop_id):
    """known_findings.txt lines:  open: property=<id> instance=<glob> match=<regex> :: <text>
                                  fixed: property=<id> <commit> <what failed>      (suppresses nothing)"""
    path = os.path.join(VERIF, "known_findings.txt")
    out = []
    if not os.path.exists(path):
        return out
    for line in open(path):
        line = line.strip()
        if not line or line.startswith("#") or line.startswith("fixed:"):
            continue
        m = re.match(r"^open:\s+property=(\S+)\s+instance=(\S+)\s+match=(\S+)\s+::\s+(.*)$", line)
        if m and m.group(1) == prop_id:
            out.append({"instance": m.group(2), "match": m.group(3), "text": m.group(4), "hit": False})
    return out


def finding_key(inst_name, fail):
    return "%s|%s|%s:%s|%s|%s" % (inst_name, fail.get("description", ""), os.path.basename(fail.get("file") or ""), fail.get("line"),
                                  fail.get("function"), fail.get("decoded"))


def run_property(prop_id, tier, instances, level="model_checking", assumptions=None, explanation="", keep=False, jobs=None):
    t0 = time.time()
    seed = int(os.environ.get("VERIF_SEED", "0") or 0)
    scratch_parent = os.environ.get("VERIF_SCRATCH") or tempfile.gettempdir()
    workroot = tempfile.mkdtemp(prefix="verif-%s-" % prop_id, dir=scratch_parent)
    replay_keep = os.path.join(VERIF, "replays", prop_id)
    runs = [InstanceRun(i, workroot, prop_id) for i in instances]
    if jobs is None:
        jobs = int(os.environ.get("VERIF_JOBS", "0") or 0) or min(16, max(1, len(runs)))
    # memory-aware parallelism: total of mem_gb must stay below ~56 GB
    memsum = max([r.inst.mem_gb for r in runs] or [1])
    jobs = max(1, min(jobs, int(56 // memsum)))
    known = load_known(prop_id)
    # VERIF_STOP_AFTER=n (mutation runs only, set by vlib/try_mutation.sh): do not start further instances once n
    # instances have reported a confirmed violation that known_findings.txt does not list.  Never set for registered checks.
    stop_after = int(os.environ.get("VERIF_STOP_AFTER", "0") or 0)
    hit = []
    def one(r):
        if stop_after and len(hit) >= stop_after:
            return
        r.execute()
        for f in r.failures:
            if f.get("confirmed") and not any(fnmatch.fnmatch(r.inst.name, k["instance"]) and re.search(k["match"], finding_key(r.inst.name, f)) for k in known):
                hit.append(r.inst.name)
                break
    with ThreadPoolExecutor(max_workers=jobs) as ex:
        list(ex.map(one, runs))
    violations, inconclusive = [], []
    known_lines = []
    for r in runs:
        groups_seen = {}
        for f in r.failures:
            if not f.get("confirmed"):
                continue
            # one report per (instance, failing source line): CBMC instruments several checks per line
            gk = (os.path.basename(f.get("file") or ""), f.get("line"), f.get("kind"))
            groups_seen[gk] = groups_seen.get(gk, 0) + 1
            if groups_seen[gk] > 1 or len(groups_seen) > 8:
                f["deduplicated"] = True
                continue
            key = finding_key(r.inst.name, f)
            matched = None
            for k in known:
                if fnmatch.fnmatch(r.inst.name, k["instance"]) and re.search(k["match"], key):
                    matched = k
                    break
            if matched:
                matched["hit"] = True
                f["known"] = matched["text"]
            else:
                violations.append((r, f))
        if r.status == "inconclusive" or (r.status == "violation" and any(not f.get("confirmed") for f in r.failures)):
            if r.status == "inconclusive":
                inconclusive.append(r)
    for k in known:
        if k["hit"]:
            known_lines.append("KNOWN-FINDING: property=%s %s" % (prop_id, k["text"]))
    # persist replays of unlisted violations under /verif/replays/<id>/ (outside the scratch dir)
    out_lines = []
    if violations:
        if os.path.isdir(replay_keep):
            shutil.rmtree(replay_keep, ignore_errors=True)
        os.makedirs(replay_keep, exist_ok=True)
    seen = set()
    for n, (r, f) in enumerate(violations):
        src = f.get("replay")
        dst = os.path.join(replay_keep, "%02d-%s" % (n, re.sub(r"[^A-Za-z0-9_.-]", "_", r.inst.name)[:60]))
        try:
            if src and os.path.isdir(src):
                shutil.copytree(src, dst, symlinks=True, ignore=shutil.ignore_patterns("root"))
            else:
                os.makedirs(dst, exist_ok=True)
            with open(os.path.join(dst, "failure.json"), "w") as fh:
                json.dump({"instance": r.inst.name, "harness": r.inst.harness, "defines": r.inst.defines, "gen_files": r.inst.gen_files,
                           "failure": {k: v for k, v in f.items() if k != "stderr"}, "stderr": f.get("stderr", ""),
                           "replay_cmd": "%s/check %s --replay %s" % (VERIF, prop_id, dst)}, fh, indent=1)
        except Exception as e:
            r.notes.append("could not persist replay: %s" % e)
        f["replay"] = dst
        out_lines.append("VIOLATION property=%s replay=%s" % (prop_id, dst))
        if n < 15: print("  instance=%s  %s  [%s:%s %s]  input=%s" % (r.inst.name, f.get("description"), os.path.basename(f.get("file") or "?"),
                                                            f.get("line"), f.get("function"), f.get("decoded") or f.get("input_hex")))
    for l in known_lines:
        print(l)
    for r in runs:
        for nte in r.notes:
            print("NOTE instance=%s %s" % (r.inst.name, nte))
        for f in r.failures:
            if not f.get("confirmed"):
                print("UNCONFIRMED instance=%s %s [%s:%s] native=%s input=%s" % (r.inst.name, f.get("description"),
                      os.path.basename(f.get("file") or "?"), f.get("line"), f.get("native"), f.get("decoded") or f.get("input_hex")))
    for l in out_lines[:15]:
        print(l)
    if len(out_lines) > 15:
        print("(%d more violations recorded in the evidence file and under %s)" % (len(out_lines) - 15, replay_keep))
    # ---- evidence ----
    obligations = sum(r.obligations for r in runs)
    discharged = sum(r.discharged for r in runs)
    witnesses = [w for r in runs for w in r.witnesses]
    reached = [w for w in witnesses if w["reached"]]
    validated = [w for w in witnesses if w["native"] == "passed"]
    samples = [s for r in runs for s in r.samples][:12]
    if not samples:
        samples = [{"instance": r.inst.name, "status": r.status} for r in runs][:5] or ["none"]
    ev = {
        "property_id": prop_id, "tier": tier, "seed": seed, "level": level,
        "coverage": {
            "evaluations": max(1, obligations),
            "distinct_nontrivial": len(set((r.inst.name, w["label"]) for r in runs for w in r.witnesses if w["reached"])),
            "rule": "evaluations = CBMC proof obligations (assertions, pointer/bounds/overflow/unwinding checks) decided by the SAT solver over all symbolic inputs within the bounds; "
                    "distinct_nontrivial = distinct (harness instance, reachability goal) pairs for which the solver produced a concrete execution reaching the goal (non-vacuity witnesses)",
            "samples": samples,
            "obligations": obligations, "discharged": discharged,
            "traces_validated_against_impl": len(validated),
            "states": max(1, sum(r.steps for r in runs)), "transitions": max(1, sum(r.clauses for r in runs)),
            "states_transitions_meaning": "states = SSA steps of the unwound program(s) (symbolic execution size); transitions = CNF clauses handed to the SAT solver; each query covers all input values within the bounds at once",
            "queries": len(runs), "solver_s": round(sum(r.solver_s for r in runs), 2),
            "sat_variables": sum(r.vars for r in runs), "sat_clauses": sum(r.clauses for r in runs),
            "exhaustive": not inconclusive and not violations,
            "explanation": explanation,
            "checker_cmd": "cbmc <goto binary rebuilt from /repo> --unwind/--unwindset per instance " + " ".join(CBMC_BASE),
            "instances": [{
                "name": r.inst.name, "harness": r.inst.harness, "defines": r.inst.defines, "functions_encoded": r.inst.functions,
                "bounds": r.inst.bounds, "unwind": r.inst.unwind, "status": r.status, "obligations": r.obligations, "discharged": r.discharged,
                "witnesses": [{k: v for k, v in w.items() if k != "input"} for w in r.witnesses], "solver_s": round(r.solver_s, 2), "wall_s": round(r.wall_s, 1),
                "sat_variables": r.vars, "sat_clauses": r.clauses, "ssa_steps": r.steps, "notes": r.notes,
                "failures": [{k: v for k, v in f.items() if k not in ("stderr",)} for f in r.failures],
            } for r in runs],
            "known_findings_matched": [k["text"] for k in known if k["hit"]],
            "trusted_base": ["CBMC 6.11.0 + MiniSat", "environment models in /verif/env (libc strings/formatting/strto*, stdio, dirent, stat)",
                             "reference oracles written in the harnesses"],
        },
        "assumptions": list(assumptions or []),
        "wall_s": round(time.time() - t0, 1),
        "violations": len(violations),
    }
    if not os.environ.get("VERIF_NO_EVIDENCE"):      # set by vlib/try_mutation.sh: runs against scratch worktrees are not evidence
        os.makedirs(os.path.join(VERIF, "evidence"), exist_ok=True)
        with open(os.path.join(VERIF, "evidence", prop_id + ".json"), "w") as f:
            json.dump(ev, f, indent=1, default=str)
    ok_n = sum(1 for r in runs if r.status == "ok")
    print("SUMMARY property=%s tier=%s instances=%d ok=%d violations=%d inconclusive=%d obligations=%d discharged=%d witnesses=%d/%d validated_natively=%d solver_s=%.1f wall_s=%.1f"
          % (prop_id, tier, len(runs), ok_n, len(violations), len(inconclusive), obligations, discharged, len(reached), len(witnesses),
             len(validated), sum(r.solver_s for r in runs), time.time() - t0))
    if keep or os.environ.get("VERIF_KEEP"):
        print("scratch kept at", workroot)
    else:
        shutil.rmtree(workroot, ignore_errors=True)
    if violations:
        return 1
    if inconclusive:
        for r in inconclusive:
            print("INCONCLUSIVE instance=%s" % r.inst.name)
        return 2
    return 0


def replay_dir(path):
    """Re-run a persisted counterexample against the library built from /repo's current tree."""
    meta = json.load(open(os.path.join(path, "failure.json")))
    inst = Instance(meta["instance"], meta["harness"], meta["defines"], gen_files=meta.get("gen_files"))
    work = tempfile.mkdtemp(prefix="verif-replay-")
    r = InstanceRun(inst, work, "replay")
    inp = open(os.path.join(path, "input.bin"), "rb").read() if os.path.exists(os.path.join(path, "input.bin")) else bytes.fromhex(meta["failure"].get("input_hex", ""))
    verdict, rdir, err = r.replay(inp, "manual")
    print(err[-3000:])
    print("REPLAY verdict=%s" % verdict)
    shutil.rmtree(work, ignore_errors=True)
    return 1 if verdict in ("failed", "hang") else 0
