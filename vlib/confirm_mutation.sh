#!/bin/bash
# usage: confirm_mutation.sh <worktree> <i>   - confirms a sub-agent's mutation in its own scratch worktree:
# clean: demo passes; mutated: library builds, all 48 tests pass, demo fails.  Leaves the worktree clean.
wt=$1; i=$2; d=$wt/MUT/$i
cd $wt || exit 3
git checkout -q -- lib util
cmake --build _build >/dev/null 2>&1
bash $d/demo.sh >/dev/null 2>&1; clean_rc=$?
git apply $d/patch.diff || { echo "CONFIRM $wt/$i patch does not apply"; exit 3; }
cmake --build _build --target check > $wt/confirm_check.log 2>&1
tests=$(grep -o "[0-9]*% tests passed, [0-9]* tests failed out of [0-9]*" $wt/confirm_check.log)
bash $d/demo.sh >/dev/null 2>&1; mut_rc=$?
git checkout -q -- lib util
cmake --build _build >/dev/null 2>&1
echo "CONFIRM $(basename $wt)/$i demo_clean_rc=$clean_rc demo_mutated_rc=$mut_rc tests=[$tests]"
