#!/usr/bin/env python3
import json,collections,sys
ev=json.load(open('/verif/evidence/%s.json'%sys.argv[1]))
for i in ev['coverage']['instances']:
    print(i['name'], i['status'], i['obligations'], i['discharged'], 'wall',i['wall_s'],'solver',i['solver_s'], [n for n in i['notes'] if 'UNKNOWN' not in n][:3])
    c=collections.OrderedDict()
    for f in i['failures']:
        k=(f.get('confirmed'),f.get('native'),f['description'][:90],f.get('file','').split('/')[-1] if f.get('file') else None,f.get('line'))
        c.setdefault(k,[]).append(f.get('decoded'))
    for k,v in list(c.items())[:int(sys.argv[2]) if len(sys.argv)>2 else 8]: print('    ',len(v),k, v[0])
