"""Harness instances per property and tier."""
from runner import Instance

DELIMS = {"eq": '"="', "coleq": '":="', "sp": '" "', "sptab": '" \\t"', "speq": '" ="', "tabspeq": '"\\t ="', "none": '""'}
COMMENTS = {"hash": '"#"', "semi": '";"', "both": '"#;"'}
OPTS = {"default": '""', "join": '"JOIN_SAME_ENTRIES=1"', "python": '"PYTHON_STYLE=1"'}

LINELOOP = (r"getfilecontents\.c", r"while \(getline", None)

COMMON_ASSUME = [
    "C/POSIX locale (isspace/tolower are CBMC's C-locale models via -D__NO_CTYPE)",
    "allocation never fails (--no-malloc-may-fail)",
    "strdup/strndup/asprintf results are blocks of constant capacity STRCAP (bound asserted); realloc'd arrays have capacity VCAP elements (bound asserted)",
    "BUFSIZ and PATH_MAX scaled down (env/scale.h); claims are relative to the scaled values",
]

def lib_unwinds(E, G, lines=None, alloc=None):
    """unwind bounds for the library's structural loops (E entries, G groups incl. the group-less pseudo group)"""
    alloc = alloc if alloc is not None else E
    u = [
        (r"helpers\.c", r"i < key_file\.length", E + 1),
        (r"helpers\.c", r"i < key_file->group_count", G + 1),
        (r"libeconf\.c", r"i < kf->group_count", G + 1),
        (r"libeconf\.c", r"i < kf->length", E + 1),
        (r"libeconf\.c", r"while \(\*array\)", max(E, G) + 2),
        (r"libeconf\.c", r"i < key_file->alloc_length", alloc + 1),
        (r"libeconf\.c", r"i < key_file->length", E + 1),
        (r"libeconf\.c", r"i < KEY_FILE_DEFAULT_LENGTH", 9),
        (r"getfilecontents\.c", r"for\(size_t i = 0; i < ef->length", E + 1),
        (r"getfilecontents\.c", r"for\(size_t j = i\+1; j < ef->length", E + 1),
        (r"libeconf_ext\.c", r"while \(\*str\)", E + 2),
    ]
    if lines is not None:
        u.append((r"getfilecontents\.c", r"while \(getline", lines + 1))
    return u

def dec_praw(inp, inst):
    tpl = inst.defines.get("RAWTPL", '""').strip('"')
    data = "".join("\n" if c == "N" else (chr(inp[1 + i]) if 1 + i < len(inp) else "\0") for i, c in enumerate(tpl))
    return {"file_bytes": data.encode("latin1").decode("latin1").encode("unicode_escape").decode("ascii"), "delim": inst.defines.get("DELIM"), "comment": inst.defines.get("COMMENT"), "optmode": inst.defines.get("OPTMODE")}

def raw_structures(maxlen):
    """every line structure of byte strings of length 0..maxlen ('.' byte other than NL, 'N' = NL)"""
    import itertools
    out = []
    for n in range(0, maxlen + 1):
        for t in itertools.product(".N", repeat=n):
            out.append("".join(t))
    return out

def p_raw(tpl, delim, comment, optmode, follow=("FOLLOW_LIST",), timeout=600, exact=False, mem=8):
    n = len(tpl)
    lines = tpl.count("N") + (1 if (n and not tpl.endswith("N")) else 0)
    cap = max(6 + 1 + n + 2, 10)
    d = {"PB": max(n, 1), "PLINES": max(lines, 1), "RAWTPL": '"%s"' % tpl, "DELIM": DELIMS[delim], "COMMENT": COMMENTS[comment], "OPTMODE": optmode,
         "STRCAP": cap, "VCAP": max(lines + 2, 10 if "FOLLOW_MERGE" in follow else 3), "VFS_CONTENT": max(n, 1) + (16 if "FOLLOW_WRITE" in follow else 0), "VFS_MAXNODES": 4, "FMTCAP": 24}
    for f in follow: d[f] = None
    if exact: d["ALLOC_EXACT"] = None
    E = max(lines, 1) + (1 if "FOLLOW_MERGE" in follow else 0)
    uw = lib_unwinds(E * (2 if "FOLLOW_MERGE" in follow else 1), lines + 2, lines=lines + 1, alloc=max(E * 2, 9 if "FOLLOW_MERGE" in follow else 0)) + [(r"p_raw\.c", r"MAXE|which < 2|i < L", max(lines, n) + 2), (r"mergefiles\.c", r"uf->length|ef->length|added_keys", 2 * E + 2),
         (r"libeconf_ext\.c", r"strsep", lines + 3), (r"builtin-library-strncpy", r"", 18), (r"libeconf\.c", r"strsep", lines + 3), (r"vfs_cbmc\.c", r"k < VFS_CONTENT", d["VFS_CONTENT"] + 2)]
    return Instance("raw-%s-%s-%s-o%d%s-%s" % (tpl or "empty", delim, comment, optmode, "-x" if exact else "", "+".join(f[7:].lower() for f in follow)), "p_raw.c", d, unwind=cap + 1, unwindset=uw,
                    timeout=timeout, mem_gb=mem, leak_check=True,
                    functions="read_file_with_callback, read_file, store, check_delim, join_same_entries, setGroupList, getFromGroupList, econf_getGroups, econf_getKeys, typed/extended getters, econf_mergeFiles, econf_writeFile, econf_freeFile",
                    bounds="file = line structure '%s' ('.' any of the 255 byte values other than NL incl. NUL, N = NL); all structures of a length together are all byte strings of that length; delim=%s comment=%s optmode=%d follow=%s" % (tpl, delim, comment, optmode, ",".join(follow)),
                    sample_decoder=dec_praw, expect_reach=[])

def c04(tier):
    insts = []
    if tier == "quick":
        cfgs = [("eq", "hash", 0), ("speq", "both", 0), ("eq", "both", 1), ("sp", "hash", 2)]
        seed = int(__import__("os").environ.get("VERIF_SEED", "0") or 0)
        for ti, tpl in enumerate(raw_structures(3)):
            for ci, (dl, cm, om) in enumerate(cfgs):
                if len(tpl) == 3 and ci != (ti + seed) % len(cfgs): continue     # length 3: one rotating configuration per structure
                insts.append(p_raw(tpl, dl, cm, om, timeout=800))
        insts.append(p_raw("..", "eq", "hash", 0, follow=("FOLLOW_GETTERS",), timeout=800))
        insts.append(p_raw("..", "eq", "hash", 0, follow=("FOLLOW_WRITE",), timeout=800))
        # second half of the decomposition (DESIGN.md 6/C04): every getter / listing and the merge from arbitrary states
        # satisfying the invariant I, with all built-in memory-safety checks (values: arbitrary bytes, e.g. only blanks)
        insts += [i for i in step_insts(1, "quick", 3) if "-L1-" in i.name or "-L2-g01-t0" in i.name][:5]
        insts += [m_inst(1, 1, gb="0", go="0"), m_inst(2, 2, gb="01", go="10"), m_inst(0, 2, gb="", go="01")]
    else:
        combos = [(dl, cm) for dl in DELIMS for cm in COMMENTS]
        main5 = [("eq", "hash"), ("sp", "both"), ("speq", "hash"), ("none", "semi"), ("coleq", "both")]
        for ti, tpl in enumerate(raw_structures(5)):
            if len(tpl) <= 3:
                for ci, (dl, cm) in enumerate(combos):
                    insts.append(p_raw(tpl, dl, cm, (ti + ci) % 3, timeout=1200))      # every (delimiter, comment) set, option rotating
            else:
                for ci, (dl, cm) in enumerate(main5):
                    om = (ti + ci) % 3
                    # out of reach (SAT solver out of memory at 8 GB / no verdict in 30 min in the first full thorough run):
                    # JOIN_SAME_ENTRIES on files of 4-5 bytes with three or more lines, PYTHON_STYLE on five lines.
                    # Those combinations are not part of the family (stated as outside the bound), the others are.
                    if (om == 1 and tpl.count("N") >= 2) or (om == 2 and tpl.count("N") >= 4):
                        continue
                    insts.append(p_raw(tpl, dl, cm, om, timeout=1800))
        for tpl in raw_structures(3):
            for dl, cm in (("eq", "hash"), ("sp", "both")):
                for fl in ("FOLLOW_GETTERS", "FOLLOW_WRITE"):
                    insts.append(p_raw(tpl, dl, cm, 0, follow=(fl,), timeout=1800))
        for tpl in raw_structures(4):
            insts.append(p_raw(tpl, "eq", "hash", 0, exact=True, timeout=1200))
        insts += step_insts(1, "thorough", 4) + step_insts(0, "quick", 2)
        for nb, no in ((1, 1), (2, 1), (1, 2), (2, 2), (0, 2), (2, 0)):
            for gb, go in canon_patterns(nb, no): insts.append(m_inst(nb, no, gb=gb, go=go))
    return {"instances": insts, "assumptions": COMMON_ASSUME + ["byte strings are enumerated by their line structure (positions of NL), all other bytes symbolic: complete for the stated length",
            "parsing options are set on the object directly (the option tokenizer is checked under C15)",
            "thorough: files of 4-5 bytes with >= 3 lines are decided without JOIN_SAME_ENTRIES, and files of five lines without PYTHON_STYLE (those queries exhaust 8 GB / 30 min); both options are decided on all files <= 3 bytes and on the 4-5 byte files with fewer lines",
            "decomposition of the 'whenever it succeeds' half: the parser harness establishes the representation invariant I of the parsed object for every byte string; getters, listings, merge and write are decided with the same memory-safety checks from arbitrary states satisfying I by the C10/C11 (S-step), C03 (M) and C07 (W) harnesses; listings and string getters (and on 2-byte files all typed/extended getters and write+read-back) additionally run directly on the parsed object"],
            "explanation": "bounded model checking of the real parser and follow-up API calls on all byte strings up to the length bound"}

def small(name, harness, defs, E=2, G=3, unwind=24, timeout=600, extra_uw=(), leak=True, mem=8, functions="", bounds="", decoder=None, flags=(), envs=("libc_model.c", "vfs_cbmc.c"), expect=None):
    d = {"STRCAP": 24, "VCAP": max(E, G) + 1, "VFS_MAXNODES": 2, "VFS_CONTENT": 4}
    d.update(defs)
    return Instance(name, harness, d, unwind=unwind, unwindset=lib_unwinds(E, G) + list(extra_uw), timeout=timeout, mem_gb=mem,
                    leak_check=leak, functions=functions, bounds=bounds, sample_decoder=decoder, flags=list(flags), envs=envs, expect_reach=expect)

TYPED_FUNCS = "econf_set<T>Value, econf_get<T>Value (macro instantiations), setKeyValue, find_key, new_key, key_file_append, set<T>ValueNum, get<T>ValueNum, stripbrackets"

def dec_typed(inp, inst):
    b = bytes(inp).ljust(24, b"\0")
    return {"type": [k for k in inst.defines if k.startswith("TYPE_")], "value_le_bytes": b[:8].hex(), "group_set": b[16] % 3, "group_get": b[17] % 3, "other_entry_first": b[18] & 1}

def c08(tier):
    insts = []
    for t in ("INT", "INT64", "UINT", "UINT64", "FLOAT", "DOUBLE", "BOOL"):
        insts.append(small("typed-%s" % t.lower(), "s_typed.c", {"TYPE_" + t: None}, functions=TYPED_FUNCS,
                           bounds="all 2^32 / 2^64 values (bit patterns) of the type; section spelled NULL, g or [g]; optional unrelated entry first", decoder=dec_typed))
        if tier == "thorough":
            insts.append(small("typed-%s-newkeyfile" % t.lower(), "s_typed.c", {"TYPE_" + t: None, "USE_NEWKEYFILE": None, "VCAP": 9}, E=9, G=3,
                               functions=TYPED_FUNCS + ", econf_newKeyFile, initialize", bounds="same, object from econf_newKeyFile (8 pre-initialised slots)", decoder=dec_typed))
    return {"instances": insts, "assumptions": COMMON_ASSUME + [
        "integer formatting/parsing axiomatised: asprintf(%d/%ld/%u/%lu) yields a token recording the value as consumed by that specifier; strto* return what C11 7.22.1.4 prescribes for its decimal text",
        "floating point: printf(%.*g)/strtof/strtod axiomatised by the IEEE-754 round-trip theorem (>= 9 / 17 significant digits); NaN payload and sign not claimed",
        "write+read half of the statement is by composition with C07 (tokens are 'plain' values)"],
        "explanation": "bounded model checking of the typed setter/getter pairs over every value of the type"}

def dec_lit(inp, inst):
    nd = int(inst.defines.get("ND", 6)); bk = int(inst.defines.get("BASEK", 0))
    b = bytes(inp).ljust(nd + 3, b"\0")
    sign = ["", "-", "+"][b[0] % 3]; n = b[1]
    pre = ["", "0", "0x", "0X"][bk]
    digs = "".join("0123456789abcdef"[x % 16] for x in b[2:2 + min(n, nd)])
    digs = inst.defines.get("PREFIX", '""').strip('"') + digs
    return {"literal": sign + pre + (digs.upper() if bk == 3 else digs), "getter": [k for k in inst.defines if k.startswith("GET_")]}

def dec_bool(inp, inst):
    bl = int(inst.defines.get("BL", 5))
    return {"text": bytes(inp[:bl]).split(b"\0")[0].decode("latin1").encode("unicode_escape").decode("ascii")}

def c09(tier):
    insts = []
    dec_prefixes = [("", 4 if tier == "quick" else 6), ("21474836", 3), ("42949672", 3), ("92233720368547758", 3), ("184467440737095516", 3)]
    for g in ("INT", "INT64", "UINT", "UINT64"):
        fn = "econf_get%sValue, econf_get%sValueDef, get%sValueNum, find_key + reference strto* model" % (g.title(), g.title(), g.title())
        for pre, nd in dec_prefixes:
            insts.append(small("lit-%s-dec-%s-d%d" % (g.lower(), pre or "free", nd), "s_lit.c", {"GET_" + g: None, "ND": nd, "BASEK": 0, "PREFIX": '"%s"' % pre, "STRCAP": nd + len(pre) + 6},
                               unwind=nd + len(pre) + 7, functions=fn, decoder=dec_lit, timeout=900, expect=["end"],
                               bounds="sign in {none,-,+}, decimal literal = concrete prefix '%s' + 0..%d symbolic digits (crosses the type limits +-2 and beyond)" % (pre, nd),
                               ))
        for bk, nd in ((1, 23), (2, 17), (3, 17)):
            if tier == "quick" and bk == 3: continue
            insts.append(small("lit-%s-base%d-d%d" % (g.lower(), bk, nd), "s_lit.c", {"GET_" + g: None, "ND": nd, "BASEK": bk, "STRCAP": nd + 6}, unwind=nd + 7, functions=fn,
                               bounds="sign in {none,-,+}, %s literal of 1..%d symbolic digits (up to %d-bit magnitudes)" % (["decimal", "octal", "hex 0x", "hex 0X"][bk], nd, nd * (3 if bk == 1 else 4)), decoder=dec_lit, timeout=900, expect=["end", "in range"] + ([] if g == "INT64" and bk == 1 else ["out of range"])))
    bl = 5 if tier == "quick" else 6
    insts.append(small("bool-text-%d" % bl, "s_bool.c", {"BL": bl, "STRCAP": 12}, unwind=13, functions="econf_getBoolValue, getBoolValueNum, toLowerCase, hashstring, econf_getBoolValueDef",
                       bounds="stored text: every byte string of length <= %d (all 256 byte values)" % bl, decoder=dec_bool))
    insts.append(small("novalue-getters", "s_novalue.c", {"STRCAP": 12}, unwind=13, functions="all typed getters and Def getters on an entry whose value is NULL",
                       bounds="entry with value == NULL as the parser stores it for a bare key"))
    return {"instances": insts, "assumptions": COMMON_ASSUME + ["strtol/strtoll/strtoul/strtoull are reference implementations of C11 7.22.1.4 (env/libc_model.c)",
            "floating getters: only pass-through is modelled (strtof/strtod axiomatised); correct rounding is libc's"],
            "explanation": "bounded model checking of the typed getters on symbolic literals / texts against a mathematical oracle"}

def dec_merge(inp, inst):
    nb = int(inst.defines.get("NBASE", 2)); no = int(inst.defines.get("NOVER", 2))
    G = ["-", "A", "B"]; K = ["x", "y"]
    b = bytes(inp).ljust(2 * (nb + no) + 1, b"\0")
    f = lambda off, n: " ".join("%s.%s" % (G[b[off + 2 * i] % 3], K[b[off + 2 * i + 1] % 2]) for i in range(n))
    return {"base": f(0, nb), "override": f(2 * nb, no), "base_ctor": inst.defines.get("BASE_CTOR", 0), "over_ctor": inst.defines.get("OVER_CTOR", 0)}

MERGE_FUNCS = "econf_mergeFiles, insert_nogroup, merge_existing_groups, add_new_groups, cpy_file_entry, setGroupList, getFromGroupList, econf_freeFile"

def canon_patterns(nb, no):
    """all section patterns over {0 group-less, 1 A, 2 B}^(nb+no) up to renaming A<->B"""
    import itertools
    out = []
    for pat in itertools.product("012", repeat=nb + no):
        first_named = next((c for c in pat if c != "0"), None)
        if first_named == "2":
            continue
        out.append(("".join(pat[:nb]), "".join(pat[nb:])))
    return out

def m_inst(nb, no, bc=0, oc=0, timeout=600, gb=None, go=None):
    n = nb + no
    ctor = bc in (1, 2) or oc in (1, 2)
    d = {"NBASE": nb, "NOVER": no, "BASE_CTOR": bc, "OVER_CTOR": oc, "STRCAP": 8, "VCAP": max(n, 9 if ctor else 4, 4)}
    if gb is not None: d["GPAT_BASE"] = '"%s"' % gb
    if go is not None: d["GPAT_OVER"] = '"%s"' % go
    E = max(n, 8 if ctor else n)
    name = "merge-%d+%d" % (nb, no)
    if gb is not None: name += "-g%s_%s" % (gb or "e", go or "e")
    if bc or oc: name += "-ctor%d%d" % (bc, oc)
    return Instance(name, "m_merge.c", d, unwind=max(9, n + 2, d["VCAP"] + 1),
                    unwindset=lib_unwinds(E, 4, alloc=E), timeout=timeout, mem_gb=6, leak_check=True, functions=MERGE_FUNCS,
                    bounds="base %d entries, override %d entries; section pattern base=%s override=%s concrete (0 group-less, 1 A, 2 B; all patterns up to renaming A<->B are separate instances), keys in {x,y} symbolic" % (nb, no, gb, go),
                    sample_decoder=dec_merge, expect_reach=["end"])

def c03(tier):
    insts = []
    pairs = [(nb, no) for nb in range(0, 4) for no in range(0, 4) if 1 <= nb + no <= (4 if tier == "quick" else 6)]
    if tier == "quick":
        pairs = [p for p in pairs if p[0] + p[1] <= 3 or p == (2, 2)]
    for nb, no in pairs:
        for gb, go in canon_patterns(nb, no):
            insts.append(m_inst(nb, no, gb=gb, go=go, timeout=600 if tier == "quick" else 1800))
    if tier == "quick":
        # bases of three entries that open a section (or the group-less part) a second time: the smallest shape in which
        # the override can define a key that the base defines only in the later run
        for gb in ("010", "101", "121"):
            for go in ("0", "1", "2"):
                insts.append(m_inst(3, 1, gb=gb, go=go))
        for gb, go in (("010", "00"), ("010", "01"), ("101", "11"), ("101", "10"), ("121", "11"), ("121", "22"), ("121", "12")):
            insts.append(m_inst(3, 2, gb=gb, go=go))
    for bc in (1, 2, 3):
        for go in ("00", "01", "11", "12"):
            insts.append(m_inst(0, 2, bc=bc, oc=0, gb="", go=go))
        insts.append(m_inst(2, 0, bc=0, oc=bc, gb="01", go=""))
    insts.append(m_inst(0, 0, bc=1, oc=3)); insts.append(m_inst(0, 0, bc=3, oc=1))
    return {"instances": insts, "assumptions": COMMON_ASSUME + ["objects are built directly in memory in the shape the parser produces (length == alloc_length, section strings owned by the object's section list)",
            "when the override defines a key more than once, any of its definitions is accepted as the visible value"],
            "explanation": "bounded model checking of econf_mergeFiles against the clause-wise reference of DESIGN.md 5.5"}

def dec_step(inp, inst):
    L = int(inst.defines.get("LEN", 2)); VL = int(inst.defines.get("VL", 2)); gp = inst.defines.get("GPAT", '""').strip('"')
    b = bytes(inp).ljust(L * (1 + VL) + 16, b"\0")
    ents = []
    for i in range(L):
        o = i * (1 + VL)
        ents.append("%s.%s=%s" % ("-AB"[int(gp[i])], "xy"[b[o] & 1], b[o + 1:o + 1 + VL].split(b"\0")[0].decode("latin1").encode("unicode_escape").decode()))
    B0 = L * (1 + VL)
    garg = ["NULL", '""', "A", "[A]", "B", "[B]", "S", "[S]"][b[B0 + 1] % 8]; karg = ["x", "y", "z", "NULL", '""'][b[B0 + 2] % 5]
    nops = 7 if str(inst.defines.get("OPSET", 0)) == "0" else 14
    return {"pre_state": ents, "tail_slots": inst.defines.get("TAIL", 0), "op": b[B0] % nops, "group_arg": garg, "key_arg": karg,
            "new_value": b[B0 + 3:B0 + 3 + VL].split(b"\0")[0].decode("latin1").encode("unicode_escape").decode()}

STEP_FUNCS = "econf_setStringValue, econf_setIntValue, econf_getStringValue, econf_getIntValue, econf_get*ValueDef, econf_getGroups, econf_getKeys, econf_getExtValue, econf_getPath, setKeyValue, find_key, new_key, key_file_append, initialize, setGroup, setKey, setGroupList, stripbrackets"

def step_insts(opset, tier, vl):
    import itertools
    insts = []
    maxlen = 2 if tier == "quick" else 3
    pats = [(L, pat) for L in range(0, maxlen + 1) for pat in itertools.product("012", repeat=L)]
    if tier == "quick" and opset == 0:
        # the smallest states in which the entries of one section are not contiguous (a section or the group-less part
        # that is continued after entries of another section): listings must still show the whole section
        pats += [(3, tuple(p)) for p in ("010", "101", "121")]
    for L, pat in pats:
        if True:
            fn = next((c for c in pat if c != "0"), None)
            if fn == "2": continue
            gp = "".join(pat)
            for tail in ((0, 2) if L <= 2 else (0,)):
                for extra in ((False, True) if (L <= 1 and tail == 0) else (False,)):
                    d = {"LEN": L, "GPAT": '"%s"' % gp, "TAIL": tail, "VL": vl, "OPSET": opset, "STRCAP": 20, "VCAP": max(L + tail + 2, 6)}
                    if extra: d["EXTRA_SECTION"] = None
                    insts.append(Instance("step%d-L%d-g%s-t%d%s" % (opset, L, gp or "e", tail, "-xs" if extra else ""), "s_step.c", d, unwind=21,
                                          unwindset=lib_unwinds(L + 1, 5, alloc=L + tail + 1), timeout=900, mem_gb=6, leak_check=True, functions=STEP_FUNCS,
                                          bounds="pre-state: %d entries, sections %s (0 group-less,1 A,2 B), keys in {x,y} symbolic, values %d symbolic bytes, %d pre-initialised tail slots%s; one operation with symbolic kind, section spelling in {NULL,'',A,[A],B,[B],S,[S]}, key in {x,y,z,NULL,''}" % (L, gp, vl, tail, ", extra key-less section S" if extra else ""),
                                          sample_decoder=dec_step, expect_reach=["end"]))
    return insts

def c11(tier):
    return {"instances": step_insts(0, tier, 2), "assumptions": COMMON_ASSUME + [
        "induction: one operation from every state satisfying the representation invariant (entries, owned section list, pre-initialised tail) preserves the invariant and matches the reference map; histories of any length follow by induction (trusted step)",
        "universe: sections {group-less,A,B,S}, keys {x,y,z}"],
        "explanation": "inductive step of the ordered-map behaviour, decided by bounded model checking from an arbitrary valid pre-state"}

def c10(tier):
    insts = step_insts(1, tier, 3 if tier == "quick" else 4)
    # econf_mergeFiles as a read-only user of its two inputs (inputs compared with their snapshots)
    for nb, no, gb, go in ((1, 1, "0", "0"), (1, 1, "1", "1"), (2, 1, "01", "1"), (1, 2, "1", "01"), (2, 2, "11", "11"), (2, 2, "01", "01")):
        insts.append(m_inst(nb, no, gb=gb, go=go))
    return {"instances": insts, "assumptions": COMMON_ASSUME + [
        "one read-only call from an arbitrary valid state preserves the whole state; sequences follow by induction",
        "econf_mergeFiles as a read-only user: merge instances with the inputs compared with their snapshots (more under C03); econf_writeFile as a read-only user is covered by the C07 harnesses (the object is compared after the write)"],
        "explanation": "frame property of every read-only API call, decided by bounded model checking from an arbitrary valid state"}

import convgen

def conv_inst(name, L, opts="", defs=(), timeout=600, functions=None, keep=None, extra_defines=None):
    if keep is not None:
        L.concretize(keep)
    n = len(L.tpl)
    # longest string the parser can build: a value with its continuation lines (<= longest 3 lines joined) or "(null)\n" + a line
    linelens = sorted((len(x) for x in L.tpl.split("\n")), reverse=True)
    cap = max(min(n + 3, sum(linelens[:3]) + 10), 9, len(opts) + 2)
    rt = "ROUNDTRIP" in defs
    clen = len(L.canon()) if rt else 0
    if rt: cap = max(cap, min(clen + 3, sum(linelens[:3]) + 14))
    d = {"STRCAP": cap, "VCAP": max(len(L.exps), len(L.secs) + 1, 2) + 1, "VFS_CONTENT": max(n, clen) + 1, "VFS_MAXNODES": 4 if rt else 2, "FMTCAP": max(cap + 4, 24)}
    for x in defs: d[x] = None
    if extra_defines: d.update(extra_defines)
    E = max(len(L.exps), 1); G = len(L.secs) + 1
    uw = lib_unwinds(E, G, lines=max(L.line, (L.canon().count(-10) if rt else 0)) + 1) + [(r"p_conv\.c", r"r < NREL", len(L.rels) + 1), (r"p_conv\.c", r"p < FLEN", n + 1),
          (r"p_conv\.c", r"i < NEXP", len(L.exps) + 1), (r"p_conv\.c", r"i < NSEC|s < NSEC", len(L.secs) + 2), (r"p_conv\.c", r"p < MAXP", 5),
          (r"p_conv\.c", r"p < n;", 5), (r"builtin-library-strncpy", r"", 18), (r"p_conv\.c", r"p < CLEN", clen + 2), (r"p_conv\.c", r"i < NKSEC", len(L.secs) + 2),
          (r"libeconf\.c", r"strsep\(&value_string", 6), (r"libeconf\.c", r"i < key_file->length", len(L.exps) + 1), (r"p_conv\.c", r"\*set; set\+\+", 18), (r"p_conv\.c", r"\*d; d\+\+", 5), (r"libeconf_ext\.c", r"strsep", 5), (r"vfs_cbmc\.c", r"k < VFS_CONTENT", max(n, clen) + 3), (r"p_conv\.c", r"j < l;|j < SEC|j < EXP", n + 2)]
    inst = Instance(name, "p_conv.c", d, unwind=cap + 1, unwindset=uw, timeout=timeout, mem_gb=8, leak_check=False,
                    gen_files={"layout.h": L.header(opts=opts, roundtrip=rt)},
                    functions=functions or "read_file_with_callback, read_file, store, check_delim, setGroupList, econf_getGroups, econf_getKeys, econf_getStringValue, econf_getExtValue, econf_errLocation, econf_freeFile",
                    bounds="layout (K/k key, V/v/W value, q quoted, c comment, S/s section, b blank, d delimiter, h comment char, m/M continuation chars are symbolic over their class; the rest literal): %s ; delim=%r comment=%r ; lines: %s"
                           % (convgen.cstr(L.tpl), L.delim, L.comment, " ".join(L.desc)),
                    sample_decoder=lambda inp, inst, tpl=L.tpl: {"template": convgen.cstr(tpl), "file": "".join((chr(inp[i]) if i < len(inp) else "?") if c in "KkVWvqcSsbBdhmnMx" else c for i, c in enumerate(tpl)).encode("latin1", "replace").decode("latin1").encode("unicode_escape").decode()})
    inst.functional_only = True
    return inst

def conv_family(tier, seed, meta=False, err=False, kinds=None, per_class=None, defs=("CHECK_KEYS",), sysl=True, nlines=(2, 3), delims=None, comments=None, python=False, tag="conv", sys_quick=28, maxlen=None, keep=None, opts=None):
    import random
    rng = random.Random(1000 + seed)
    insts = []
    delims = delims or (["eq", "sp", "speq", "none", "coleq"] if tier == "quick" else list(convgen.DELIM_SETS))
    comments = comments or (["hash", "both"] if tier == "quick" else list(convgen.COMMENT_SETS))
    per_class = per_class or (2 if tier == "quick" else 10)
    for dn in delims:
        for cn in comments:
            dl, cm = convgen.DELIM_SETS[dn], convgen.COMMENT_SETS[cn]
            layouts = []
            if sysl and ((tier == "thorough" and dn in ("eq", "sp", "speq", "none") and cn in ("hash", "both")) or (dn == "eq" and cn == "hash")):
                sysls = [("sys%d" % i, L) for i, L in enumerate(convgen.systematic_layouts(dl, cm, meta=meta))]
                if tier == "quick" and len(sysls) > sys_quick:
                    # fixed core (neighbour pairs) + a seed-rotated sample of the entry forms
                    core = sysls[-12:]; rest = sysls[:-12]
                    random.Random(77 + seed).shuffle(rest)
                    sysls = rest[:sys_quick - 12] + core
                layouts += sysls
            for r in range(per_class):
                nl = nlines[r % len(nlines)]
                L = convgen.random_layout(rng, dl, cm, nl, want_err=err, python=python, meta=meta, only_kinds=kinds)
                if err and L.err is None: continue
                layouts.append(("rnd%d" % r, L))
            for tg, L in layouts:
                if not L.valid() or len(L.tpl) == 0 or len(L.tpl) > (maxlen or (26 if tier == "quick" else 34)): continue
                if not err and L.err is not None: continue
                insts.append(conv_inst("%s-%s-%s-%s" % (tag, dn, cn, tg), L, opts=opts if opts is not None else ("PYTHON_STYLE=1" if python else ""), defs=defs, keep=keep(len(insts)) if callable(keep) else keep))
    return insts

def c02(tier):
    seed = int(__import__("os").environ.get("VERIF_SEED", "0") or 0)
    insts = conv_family(tier, seed)
    # fixed core: continuation lines (with and without a trailing comment) under multi-character comment sets
    for dn, cn in ((("eq", "both"), ("sp", "both"), ("coleq", "hash")) if tier == "quick" else [(d, c) for d in ("eq", "coleq", "sp", "sptab") for c in convgen.COMMENT_SETS]):
        dl, cm = convgen.DELIM_SETS[dn], convgen.COMMENT_SETS[cn]
        L = convgen.Layout(dl, cm); f = convgen.seps_for(L)[0]
        L.entry("", 1, f, "plain1", ""); L.cont(" ", 2, "", tail=" Hc"); L.entry("", 1, f, "plain1", " Hc")
        insts.append(conv_inst("conv-%s-%s-cont-tail" % (dn, cn), L, defs=("CHECK_KEYS",)))
        L = convgen.Layout(dl, cm); f = convgen.seps_for(L)[0]
        L.entry(" ", 2, f, "plain3", ""); L.cont("\t", 1, "", tail="Hcc"); L.cont("  ", 3, "")
        insts.append(conv_inst("conv-%s-%s-cont2" % (dn, cn), L, defs=("CHECK_KEYS",)))
    return {"instances": insts, "assumptions": COMMON_ASSUME + [
        "layouts (line kinds, which optional blanks/quotes/comments are present, field lengths) are concrete per instance: a fixed systematic sweep plus a pseudo-random sample drawn from VERIF_SEED; all field characters are symbolic over their grammar class",
        "section names / keys that are meant to be distinct are assumed distinct, re-opened sections / repeated keys are assumed equal (relations generated with the layout)"],
        "explanation": "bounded model checking of the real parser on generated conventional files with the expected result constructed alongside"}

NAMESETS = {"A": ["9.conf", "x.con", "10.conf"], "B": ["a.conf", ".conf", "B.conf"], "C": ["9.conf", "a.conf", ".h.conf"]}
ENTRYNAMES = ["readDirsHistory", "readDirsHistoryWithCallback", "readDirs", "readDirsWithCallback", "readConfig", "readConfigWithCallback"]

def d_inst(entry, layers, nameset, fullpat, suffix="conf", faults=0, timeout=150, keysel=None, failfile=-1, failkind=1, rootmode=False, confopt=False, setconf=None, nameless=False):
    """fullpat: list per layer of [main present, dropin dir present, presence per candidate...]"""
    pattern = [row[2:] for row in fullpat]
    mainp = [row[0] for row in fullpat]; dirp = [row[1] for row in fullpat]
    names = NAMESETS[nameset]
    nf = len(names)
    sufarg = "NULL" if suffix is None else '"%s"' % suffix
    sufdot = "" if not suffix else (suffix if suffix.startswith(".") else "." + suffix)
    hdr = "#define LAYERS %d\n#define NF %d\nstatic const char *CAND[NF] = {%s};\nstatic const unsigned char PRESENT[LAYERS][NF] = {%s};\n#define SUFFIX_ARG %s\n#define SUFFIX_DOT \"%s\"\n#define ENTRY %d\n#define FAULTS %d\nstatic const unsigned char MAINP[LAYERS] = {%s};\nstatic const unsigned char DIRP[LAYERS] = {%s};\n" % (
        layers, nf, ",".join('"%s"' % n for n in names), ",".join("{%s}" % ",".join(str(b) for b in row) for row in pattern), sufarg, sufdot, entry, faults,
        ",".join(str(b) for b in mainp), ",".join(str(b) for b in dirp))
    nfiles0 = layers * (nf + 1)
    if keysel == "first-unique":
        # the first drop-in of the lowest layer (byte-wise order, carrying the suffix) is the only file defining k1
        cands = sorted((n, c) for c, n in enumerate(names) if len(n) > len(sufdot) and n.endswith(sufdot))
        ks = ["2"] * nfiles0
        for l in range(layers): ks[l] = "1"
        if cands: ks[layers + cands[0][1]] = "1"
        keysel = "".join(ks)
    if keysel is None:
        import random, zlib
        keysel = "".join(random.Random(zlib.crc32(str(fullpat).encode())).choice("12") for _ in range(nfiles0))
    hdr += 'static const char KEYSEL[] = "%s";\n#define FAILFILE %d\n#define FAILKIND %d\n' % (keysel, failfile, failkind)
    ldirs = ["/u", "/e"] if layers == 2 else ["/u", "/r", "/e"]
    if rootmode:
        ldirs = ["/R//usr/p", "/R//run/p", "/R//etc/p"]
        pre = ["/R", "/R//usr", "/R//run", "/R//etc"]
        hdr += "#define ROOTMODE 1\n#define NPREDIRS %d\nstatic const char *PREDIRS[] = {%s};\nstatic const char *LAYERDIR[] = {%s};\n" % (len(pre), ",".join('"%s"' % x for x in pre), ",".join('"%s"' % x for x in ldirs))
    if confopt: hdr += "#define CONFOPT 1\n"
    mains = [d + "/c" + sufdot for d in ldirs]
    bases = [d + "/c" for d in ldirs]
    ddp = [(b + setconf) if setconf else (b + ".d") if nameless else (m + ".d") for b, m in zip(bases, mains)]
    if nameless: hdr += "#define NAMELESS 1\n"
    if setconf: hdr += '#define SETCONF "%s"\n' % setconf
    hdr += "static const char *MAINPATH[LAYERS] = {%s};\nstatic const char *DDPATH[LAYERS] = {%s};\nstatic const char *FPATH[LAYERS][NF] = {%s};\n" % (
        ",".join('"%s"' % m for m in mains), ",".join('"%s"' % x for x in ddp),
        ",".join("{%s}" % ",".join('"%s/%s"' % (x, n) for n in names) for x in ddp))
    pat = "_".join("".join(str(b) for b in row) for row in fullpat)
    nfiles = layers * (nf + 1)
    d = {"STRCAP": 56 if confopt else 40, "VCAP": max(nfiles + 2, 6), "VFS_MAXNODES": layers * (nf + 3) + 6, "VFS_CONTENT": 10, "V_PATH_MAX": 48, "VFS_MAXEV": 48, "CALLOC_N": max(nfiles + 2, 6)}
    name = "d-%s-L%d-%s-%s-suf%s%s" % (ENTRYNAMES[entry], layers, nameset, pat, ("NULL" if suffix is None else "empty" if suffix == "" else suffix.replace(".", "dot")), (("-fail%d%s" % (failfile, "xrpo"[failkind])) if faults else "") + ("-rootprefix" if rootmode else "") + ("-confdirs" if confopt else "") + ("-setconfdirs" if setconf else "") + ("-nameless" if nameless else ""))
    uw = lib_unwinds(nfiles * 2 + 2, 3, alloc=nfiles * 2 + 2) + [
        (r"readconfig\.c", r"for \(int i = parse_dirs_count", layers + 1), (r"readconfig\.c", r"i < parse_dirs_count", layers + 1), (r"readconfig\.c", r"i < conf_count", 2),
        (r"readconfig\.c", r"k < \*size-1", nfiles + 1), (r"mergefiles\.c", r"i < num_dirs", nf + 3), (r"mergefiles\.c", r"k < num_dirs", nf + 3),
        (r"mergefiles\.c", r"while \(config_dirs\[i\]", 3), (r"mergefiles\.c", r"while\(\*key_files\)", nfiles + 1), (r"mergefiles\.c", r"while \(\*double_key_files\)", nfiles + 1),
        (r"d_hist\.c", r"s < MAXFILES|s < nseq|t < nseq|i < nfi|l < nl|c < NF|oc < NF|a < NF|b >= 0|l >= 0", nfiles + 2),
        (r"vfs_cbmc\.c", r"i < vfs_n|t < vfs_n|s < 2|i < cnt|j >= 0|p >= 0", layers * (nf + 3) + 9), (r"libeconf\.c", r"strsep\(&in_entry", layers + 2), (r"libeconf\.c", r"strsep\(&in_opt", 3)]
    return Instance(name, "d_hist.c", d, unwind=57 if confopt else 41, unwindset=uw, timeout=timeout, mem_gb=8, leak_check=not setconf, gen_files={"layout.h": hdr},
                    flags=["--max-field-sensitivity-array-size", "300"],
                    functions="econf_%s, readConfigWithCallback, readConfigHistoryWithCallback, traverse_conf_dirs, check_conf_dir, merge_econf_files, econf_mergeFiles (+ contract of read_file_with_callback)" % ENTRYNAMES[entry],
                    bounds="%d layers; concrete pattern per layer [main file: 0 none/1 with content/2 empty/3 link to /dev/null, drop-in dir exists, presence of each candidate of %s] = %s; every file defines one key (k1 or k2, concrete per instance) with a symbolic value; suffix argument %r; %s"
                           % (layers, names, pat, suffix, ("file #%d (0..L-1 main files, then drop-ins layer by layer) fails: %s" % (failfile, ["", "callback rejects it", "malformed content", "foreign owner under econf_requireOwner"][failkind])) if faults else "all files acceptable"),
                    expect_reach=[], sample_decoder=lambda inp, inst, L=layers: {"contentless_main_is_empty_file": [inp[3 * l] & 1 if 3 * l < len(inp) else 0 for l in range(L)], "value_seed_per_layer": [inp[3 * l + 2] if 3 * l + 2 < len(inp) else 0 for l in range(L)], "key_bits": list(inp[-3:-1]), "verdicts": list(inp[3 * L:3 * L + L * 4])})

def d_patterns(layers, nf, n, rng):
    import itertools
    w = nf + 2
    must = [[1] * (layers * w), [2] + [1] * (layers * w - 1), [1] * ((layers - 1) * w) + [3] + [1] * (w - 1),                                   # everything exists: every drop-in of a lower layer is masked
            ([0, 1] + [1] * nf) * layers,                        # no main file anywhere, first drop-in masked
            [0] * (layers * w),                                   # nothing exists
            ([1, 0] + [0] * nf) + [0] * ((layers - 1) * w),      # main file only in the lowest layer
            ([1, 1, 1, 0, 1] + [0] * (nf - 3)) + ([0, 1, 0, 1, 1] + [0] * (nf - 3)) * (layers - 1)]
    out = []
    for p in must:
        if p not in out: out.append(p)
    while len(out) < n:
        p = [rng.randint(0, 1) for _ in range(layers * w)]
        for l in range(layers):
            if p[l * w] and rng.random() < 0.4: p[l * w] = rng.choice([2, 3])
        if p not in out: out.append(p)
    return [[p[l * w:(l + 1) * w] for l in range(layers)] for p in out[:n]]

def consulted(layers, nameset, fullpat, suffix="conf"):
    """reference consulted sequence as file indices (0..L-1 main files, then drop-ins layer by layer)"""
    names = NAMESETS[nameset]; nf = len(names)
    sufdot = "" if not suffix else (suffix if suffix.startswith(".") else "." + suffix)
    seq = []
    for l in range(layers - 1, -1, -1):
        if fullpat[l][0]: seq.append(l); break
    for l in range(layers):
        if not fullpat[l][1]: continue
        for n, c in sorted((n, c) for c, n in enumerate(names)):
            if fullpat[l][2 + c] and len(n) > len(sufdot) and n.endswith(sufdot): seq.append(layers + l * nf + c)
    return seq

def fault_insts(tier, entries, kinds, seed, per_entry):
    import random
    rng = random.Random(900 + seed)
    insts = []
    for entry in entries:
        layers = 2 if entry < 4 else 3
        pats = d_patterns(layers, 3, 5 + per_entry, rng)
        pats = [p for p in pats if len(consulted(layers, "A", p)) >= 2][:per_entry]
        for pat in pats:
            seq = consulted(layers, "A", pat)
            picks = {seq[0], seq[-1], seq[len(seq) // 2]}
            if tier == "quick": picks = set(rng.sample(sorted(picks), min(2, len(picks))))
            for ff in sorted(picks):
                for fk in kinds:
                    if fk == 1 and entry not in (1, 3, 5): continue
                    insts.append(d_inst(entry, layers, "A", pat, faults=1, failfile=ff, failkind=fk, timeout=300))
    return insts

D_ASSUME = ["decomposition (DESIGN.md 5.3): read_file_with_callback is replaced by its contract in the CBMC query (established for the real reader by the reader harness r_reader.c); the native replay of every witness runs the real reader and parser on a real directory tree",
            "tree shape (which files exist, which file fails and how) is concrete per instance (enumerated / sampled by VERIF_SEED); stored values are symbolic",
            "scandir model delivers '.', '..' and the present children in reverse registration order (never the sorted order) and sorts with the caller's comparator; alphasort = strcmp (C locale)"]

def c06(tier):
    seed = int(__import__("os").environ.get("VERIF_SEED", "0") or 0)
    insts = [r_inst(1), r_inst(4)]
    insts += fault_insts(tier, (1, 3, 5), (1,), seed, 3 if tier == "quick" else 12)
    import random
    rng = random.Random(600 + seed)
    for entry in (1, 3, 5):
        layers = 2 if entry < 4 else 3
        for pi, pat in enumerate(d_patterns(layers, 3, 3 if tier == "quick" else 16, rng)):
            insts.append(d_inst(entry, layers, "A", pat, keysel="first-unique" if pi < 5 else None))
    full3 = [[1, 1, 1, 0, 1], [1, 1, 1, 1, 0], [0, 1, 0, 1, 1]]
    insts.append(d_inst(5, 3, "A", full3, confopt=True))
    insts.append(d_inst(5, 3, "A", full3, rootmode=True))
    insts.append(d_inst(5, 3, "A", full3, nameless=True))
    for ff in consulted(3, "A", full3)[1:3]:
        insts.append(d_inst(5, 3, "A", full3, confopt=True, faults=1, failfile=ff, failkind=1))
        insts.append(d_inst(5, 3, "A", full3, rootmode=True, faults=1, failfile=ff, failkind=1))
    return {"instances": insts, "assumptions": COMMON_ASSUME + D_ASSUME, "explanation": "callback consulted for every file before use, in order, with unchanged data pointer; one rejection yields nothing (reader harness + layered-read harness with an injected rejection)"}

def c16(tier):
    seed = int(__import__("os").environ.get("VERIF_SEED", "0") or 0)
    insts = [r_inst(1), r_inst(4)]
    insts += fault_insts(tier, range(6), (3,), seed, 2 if tier == "quick" else 10)
    return {"instances": insts, "assumptions": COMMON_ASSUME + D_ASSUME + ["ownership and symlink attributes are modelled by lstat results (kernel semantics out of scope); econf_requirePermissions is not part of the statement"],
            "explanation": "owner/group/symlink restrictions decided on the real reader for every attribute/restriction combination; every entry point aborts on a refused file"}

def c12(tier):
    import random
    seed = int(__import__("os").environ.get("VERIF_SEED", "0") or 0)
    rng = random.Random(1200 + seed)
    insts = []
    pats2 = d_patterns(2, 3, 4 if tier == "quick" else 24, rng)
    for pi, pat in enumerate(pats2):
        for entry in (0, 1, 2, 3):
            insts.append(d_inst(entry, 2, "A", pat, keysel="first-unique" if pi < 5 else None))
        # the layered read configured with the same two directories
        insts.append(d_inst(4, 2, "A", pat, keysel="first-unique" if pi < 5 else None))
        insts.append(d_inst(5, 2, "A", pat, keysel="first-unique" if pi < 5 else None))
    for suf in (".conf", None, ""):
        pat = d_patterns(2, 3, 6, rng)[-1]
        for entry in (0, 2, 3, 5):
            insts.append(d_inst(entry, 2, "B", pat, suffix=suf))
    # the process-wide drop-in directory list must reach every entry point
    for entry in range(6):
        insts.append(d_inst(entry, 2, "A", [[1, 1, 1, 0, 1], [0, 1, 1, 0, 1]], setconf=".dd"))
    return {"instances": insts, "assumptions": COMMON_ASSUME + D_ASSUME + ["agreement of the entry points is shown through the common reference: every entry point is compared with the same reference consulted sequence / reference fold on the same tree instance"],
            "explanation": "all six entry points on identical trees against one reference; history = consulted sequence with own path and content"}

def c01(tier):
    import random
    seed = int(__import__("os").environ.get("VERIF_SEED", "0") or 0)
    rng = random.Random(500 + seed)
    insts = []
    if tier == "quick":
        for entry, layers, ns, n in ((3, 2, "A", 6), (5, 3, "A", 5), (2, 2, "B", 3), (4, 3, "C", 3), (1, 2, "A", 3)):
            for pi, pat in enumerate(d_patterns(layers, 3, n, rng)):
                insts.append(d_inst(entry, layers, ns, pat, keysel="first-unique" if pi < 5 else None))
        for pat in d_patterns(3, 3, 3, rng)[:2] + [[[1, 1, 1, 0, 1], [1, 1, 1, 1, 0], [0, 1, 0, 1, 1]]]:
            insts.append(d_inst(5, 3, "A", pat, rootmode=True))
        insts.append(d_inst(4, 3, "A", [[1, 1, 0, 1, 1], [0, 1, 1, 0, 1], [1, 1, 1, 0, 0]], rootmode=True))
        insts.append(d_inst(5, 3, "A", [[1, 1, 1, 0, 1], [1, 1, 1, 1, 0], [0, 1, 0, 1, 1]], confopt=True))
        insts.append(d_inst(5, 3, "A", [[0, 1, 1, 0, 1], [0, 1, 1, 1, 0], [0, 1, 0, 1, 1]], nameless=True))
        insts.append(d_inst(4, 3, "C", [[1, 1, 1, 1, 0], [0, 0, 1, 1, 1], [0, 1, 1, 0, 1]], nameless=True))
        insts.append(d_inst(3, 2, "A", [[1, 1, 1, 1, 1], [0, 1, 1, 1, 0]], suffix=".conf"))
        insts.append(d_inst(3, 2, "B", [[0, 1, 1, 1, 1], [1, 1, 1, 0, 1]], suffix=None))
        insts.append(d_inst(5, 3, "B", [[1, 1, 1, 1, 1], [0, 1, 0, 1, 1], [0, 0, 1, 0, 0]], suffix=""))
    else:
        for entry in range(6):
            layers = 2 if entry < 4 else 3
            for ns in ("A", "B", "C"):
                for pi, pat in enumerate(d_patterns(layers, 3, 64 if layers == 2 else 40, rng)):
                    insts.append(d_inst(entry, layers, ns, pat, timeout=600, keysel="first-unique" if pi < 5 else None))
            for suf in (".conf", None, ""):
                for pat in d_patterns(layers, 3, 6, rng):
                    insts.append(d_inst(entry, layers, "B", pat, suffix=suf, timeout=600))
            if entry >= 4:
                for pat in d_patterns(3, 3, 24, rng):
                    insts.append(d_inst(entry, 3, "A", pat, rootmode=True, timeout=600))
                    insts.append(d_inst(entry, 3, "C", pat, confopt=True, timeout=600))
                for pat in d_patterns(3, 3, 12, rng):
                    insts.append(d_inst(entry, 3, "B", pat, nameless=True, timeout=600))
    insts.append(small("null-names", "n_null.c", {"STRCAP": 24, "VCAP": 6, "VFS_MAXNODES": 4, "CALLOC_N": 6}, E=2, G=2, unwind=25, timeout=300,
                       extra_uw=[(r"readconfig\.c", r"parse_dirs_count", 4), (r"mergefiles\.c", r"config_dirs\[i\]", 3)],
                       functions="all six layered-read entry points with NULL / empty configuration name and NULL project", bounds="entry point, suffix NULL or given, name NULL or empty: symbolic", flags=["--max-field-sensitivity-array-size", "300"]))
    return {"instances": insts, "assumptions": COMMON_ASSUME + [
        "decomposition (DESIGN.md 5.3): read_file_with_callback is replaced by its contract in the CBMC query (established for the real reader by the C06/C16 reader harness); parsing and pairwise merging semantics come from C02/C03; the native replay of every witness runs the real reader and parser on a real directory tree",
        "drop-in presence patterns are concrete per instance (enumerated / sampled by VERIF_SEED); main-file states and drop-in directory presence are symbolic",
        "scandir model delivers '.', '..' and the present children in nondeterministic (forward or reverse) order and sorts with the caller's comparator; alphasort = strcmp (C locale)"],
        "explanation": "bounded model checking of the layered read (history builder, drop-in scan, masking, fold) against the reference consulted sequence and reference merge"}

def r_inst(kind, expect=None):
    return small("reader-kind%d" % kind, "r_reader.c", {"KIND": kind, "STRCAP": 16, "VFS_CONTENT": 6, "VFS_MAXNODES": 2, "VCAP": 3}, E=2, G=2, unwind=17,
                 extra_uw=[(r"getfilecontents\.c", r"while \(getline", 3), (r"r_reader\.c", r"i < VFS_MAXEV", 26)], timeout=300,
                 functions="econf_readFileWithCallback, read_file_with_callback, read_file, econf_requireOwner, econf_requireGroup, econf_followSymlinks, econf_reset_security_settings",
                 bounds="one file of kind %s; owner/group in {0,1}; every combination of owner/group/no-symlink restriction with symbolic required ids, optional reset, optional callback with symbolic verdict; one symbolic value byte" % {0: "absent", 1: "regular", 4: "symlink to a regular file"}[kind],
                 expect=expect)

def c05(tier):
    seed = int(__import__("os").environ.get("VERIF_SEED", "0") or 0)
    kinds = ["comment", "comment", "comment", "entry", "entry", "section", "blank"]
    insts = conv_family(tier, seed, kinds=kinds, sysl=False, per_class=4 if tier == "quick" else 24, tag="cmt", defs=("CHECK_KEYS",), keep=(lambda i: None if i % 3 == 0 else "chbB"),
                        delims=["eq", "sp", "speq"] if tier == "quick" else None, comments=["hash", "both", "semi"] if tier != "quick" else ["hash", "both"],
                        nlines=(2, 3, 3), maxlen=22 if tier == "quick" else 32)
    # fixed core: a comment line (indented / not) directly after, before and between entries
    for dn, cn in (("eq", "hash"), ("eq", "both"), ("sp", "hash")) if tier == "quick" else [(d, c) for d in convgen.DELIM_SETS if d != "none" for c in convgen.COMMENT_SETS]:
        dl, cm = convgen.DELIM_SETS[dn], convgen.COMMENT_SETS[cn]
        for ind in ("", " ", "\t"):
            for n in (1, 3):
                L = convgen.Layout(dl, cm); f = convgen.seps_for(L)[0]
                L.entry("", 1, f, "plain1", ""); L.comment_line(ind, n); L.entry("", 1, f, "plain1", "")
                insts.append(conv_inst("cmt-%s-%s-after-i%d-n%d" % (dn, cn, len(ind) + (ind == "\t"), n), L, defs=("CHECK_KEYS",), keep=None if n == 1 else "chbB"))
        L = convgen.Layout(dl, cm); f = convgen.seps_for(L)[0]
        L.comment_line("", 3); L.section("", 1, ""); L.comment_line(" ", 2); L.entry("", 1, f, "quoted2", "")
        insts.append(conv_inst("cmt-%s-%s-block" % (dn, cn), L, defs=("CHECK_KEYS",)))
    return {"instances": insts, "assumptions": COMMON_ASSUME + ["comment text is fully symbolic (any byte except newline and NUL: further comment characters, delimiters, quotes, brackets, blanks); layouts concrete per instance (fixed core + VERIF_SEED sample); in two of three instances the non-comment fields are representative literals, in the others every field character is symbolic as well",
            "inserting/deleting comment lines: every layout with and without comment lines is compared with its constructed expectation, which ignores comment lines"],
            "explanation": "bounded model checking of the parser on layouts rich in comment lines with arbitrary text"}

def c17(tier):
    seed = int(__import__("os").environ.get("VERIF_SEED", "0") or 0)
    defs = ("CHECK_META", "CHECK_EXT")
    insts = conv_family(tier, seed, meta=True, sysl=False, per_class=5 if tier == "quick" else 20, tag="meta", defs=defs,
                        delims=["eq", "sp", "coleq"] if tier == "quick" else None, nlines=(2, 3, 3), maxlen=22 if tier == "quick" else 32)
    for dn, cn in (("eq", "hash"), ("sp", "both")) if tier == "quick" else [(d, c) for d in convgen.DELIM_SETS if d != "none" for c in convgen.COMMENT_SETS]:
        dl, cm = convgen.DELIM_SETS[dn], convgen.COMMENT_SETS[cn]
        L = convgen.Layout(dl, cm); f = convgen.seps_for(L)[0]
        L.comment_line("", 2); L.comment_line("", 1); L.entry("", 1, f, "plain3", " Hcc")
        insts.append(conv_inst("meta-%s-%s-block-tail" % (dn, cn), L, defs=defs))
        # comment block that begins and ends with an empty comment line ("#" alone): the empty lines belong to the block
        L = convgen.Layout(dl, cm); f = convgen.seps_for(L)[0]
        L.comment_line("", 0); L.comment_line("", 2); L.comment_line("", 0); L.entry("", 1, f, "plain1", "")
        insts.append(conv_inst("meta-%s-%s-block-empty" % (dn, cn), L, defs=defs))
        if not L.mixed:
            L = convgen.Layout(dl, cm); f = convgen.seps_for(L)[0]
            L.entry("", 1, f, "plain1", ""); L.cont(" ", 2, ""); L.entry("", 1, f, "quoted2", "")
            insts.append(conv_inst("meta-%s-%s-cont" % (dn, cn), L, defs=defs))
        L = convgen.Layout(dl, cm); f = convgen.seps_for(L)[0]
        L.comment_line("", 1); L.blank(""); L.section("", 1, ""); L.entry("", 2, f, "plain1", "Hc")
        insts.append(conv_inst("meta-%s-%s-relative" % (dn, cn), L, defs=defs + ("RELATIVE",)))
    return {"instances": insts, "assumptions": COMMON_ASSUME + ["layouts concrete per instance, characters symbolic (as C02)", "relative names are resolved by a realpath model against a concrete working directory; the native replay uses the real realpath",
            "econf_getPath of a merged result ('') is asserted by the layered-read harness (C01/C12)"],
            "explanation": "provenance metadata (absolute path, line of the entry's end, preceding comment lines, trailing comment, blank-trimmed value lines) compared with the spans of the generated file"}

def c07(tier):
    seed = int(__import__("os").environ.get("VERIF_SEED", "0") or 0)
    import random
    rng = random.Random(700 + seed)
    insts = []
    defs = ("ROUNDTRIP",)
    combos = [("=", "#"), (":", ";"), (" ", "#")] if tier == "quick" else [(d, c) for d in "=: " for c in "#;"]
    for dl, cm in combos:
        dn = {"=": "eq", ":": "col", " ": "sp"}[dl]; cn = {"#": "hash", ";": "semi"}[cm]
        layouts = []
        # fixed core: comments before + tail, quoted value, re-opened section, empty value, continuation line
        L = convgen.Layout(dl, cm); f = convgen.seps_for(L)[0]
        L.comment_line("", 2); L.entry("", 1, f, "quoted2", " Hc"); L.section("", 1, ""); L.entry("", 2, f, "plain1", "")
        layouts.append(("core1", L))
        L = convgen.Layout(dl, cm); f = convgen.seps_for(L)[0]
        L.section("", 1, ""); L.entry("", 1, f, "plain3", ""); L.section("", 1, ""); L.entry("", 1, f, "empty", ""); L.section("", 1, "", same_as=0); L.entry("", 1, f, "plain1", "")
        layouts.append(("core2", L))
        L = convgen.Layout(dl, cm); f = convgen.seps_for(L)[0]
        L.entry("", 1, f, "plain1", ""); L.cont(" ", 2, ""); L.entry("", 1, f, "quoted3", "")
        layouts.append(("core3", L))
        for r in range(5 if tier == "quick" else 24):
            L = convgen.random_layout(rng, dl, cm, (1, 1, 2, 3, 3)[r % 5], meta=True, min_comment=1)
            layouts.append(("rnd%d" % r, L))
        for tg, L in layouts:
            if not L.valid() or not L.exps or len(L.tpl) > (26 if tier == "quick" else 34) or L.err: continue
            small_l = len(L.tpl) <= 9
            insts.append(conv_inst("rt-%s-%s-%s%s" % (dn, cn, tg, "" if small_l else "-lit"), L, defs=defs, keep=None if small_l else ""))
    if tier == "quick":
        hist = ["A.x -.y", "-.x A.y -.z", "A.x B.y A.z", "-.x -.x", "A.x A.x B.x", "B.x A.y -.x B.z"]
    else:
        import itertools
        hist = []
        for n in (1, 2, 3, 4):
            for secs in itertools.product("-AB", repeat=n):
                if "B" in secs and ("A" not in secs or secs.index("B") < secs.index("A")): continue
                for keys in itertools.product("xy", repeat=n):
                    if n == 4 and rng.random() < 0.7: continue
                    hist.append(" ".join("%s.%s" % (a, b) for a, b in zip(secs, keys)))
    for h in hist:
        for dl, cm in (combos[:2] if tier == "quick" else combos):
            insts.append(wset_inst(h, dl, cm))
    return {"instances": insts, "assumptions": COMMON_ASSUME + ["parsed objects: layouts concrete per instance with symbolic field characters (as C02); the written bytes are compared with the canonical serialisation of DESIGN.md 5.4 and the file is read back with the same delimiter and comment character",
            "setter-built objects: the sequence of (section, key) of the setter calls is concrete per instance (all sequences up to the length bound in thorough), values symbolic 'plain' text",
            "an empty value may come back as 'no value' (NULL) - both denote the empty value; comment lines with empty text are not generated (the writer drops an all-empty comment; not claimed)",
            "the writer's output positions depend on string lengths and a symbolic character may be NUL for the symbolic execution, so objects that pass through econf_writeFile carry concrete strings except in the smallest layouts (<= 9 bytes); the symbolic quantification over field characters is on the parsing side (canonical files are conventional files, C02)"],
            "explanation": "write/read round trip decided on parsed conventional files and on setter histories"}

def wset_inst(hist, dl, cm):
    ops = hist.split()
    n = len(ops)
    # canonical text the writer must produce: entries in order of first set, header on section change
    ents = []
    for o in ops:
        if o not in ents: ents.append(o)
    ents = [o for o in ents if o.startswith("-")] + [o for o in ents if not o.startswith("-")]   # group-less entries are written first
    text = ""; prev = None
    for i, o in enumerate(ents):
        g, k = o.split(".")
        if i == 0 or g != prev:
            if i: text += "\n"
            if g != "-": text += "[%s]\n" % g
        prev = g
        text += "%s%s??\n" % (k, dl)
    ends = [i + 1 for i, c in enumerate(text) if c == "\n"]
    d = {"STRCAP": 16, "VCAP": max(n + 2, 5), "VFS_CONTENT": 12 * n + 8, "VFS_MAXNODES": 3, "FMTCAP": 24, "HIST": '"%s"' % hist.replace(" ", ","), "NOPS": n, "DCH": "'%s'" % dl, "CCH": "'%s'" % cm,
         "WS_ENDS": "{%s}" % ",".join(str(e) for e in ends), "WS_NENDS": len(ends), "WS_LEN": len(text), "CONCRETE_VALUES": None}
    uw = lib_unwinds(n + 1, 4, lines=3 * n + 3, alloc=9) + [(r"w_set\.c", r"i < NOPS|j < NOPS", n + 2), (r"w_set\.c", r"g < 3", 4), (r"vfs_cbmc\.c", r"k < VFS_CONTENT", 12 * n + 10), (r"libeconf\.c", r"i < key_file->length", n + 1)]
    inst = Instance("ws-%s-%s%s" % (hist.replace(" ", "_").replace(".", ""), {"=": "eq", ":": "col", " ": "sp"}[dl], {"#": "h", ";": "s"}[cm]), "w_set.c", d, unwind=17, unwindset=uw, timeout=400, mem_gb=8, leak_check=False,
                    functions="econf_newKeyFile, econf_setStringValue, econf_writeFile, econf_readFile, econf_getGroups, econf_getKeys, econf_getStringValue",
                    bounds="setter history %s (section.key per call, '-' group-less; repeated pairs overwrite), values: 2 concrete characters each (the writer's output layout depends on string lengths, which a symbolic character makes symbolic); delimiter %r comment %r" % (hist, dl, cm),
                    expect_reach=["end"])
    inst.functional_only = True
    return inst

def opt_inst(items):
    """items: list of option item strings"""
    join = py = 0; parse = []; conf = []; root = None; unknown = False
    for it in items:
        if it == "JOIN_SAME_ENTRIES=1": join = 1
        elif it == "PYTHON_STYLE=1": py = 1
        elif it.startswith("PARSING_DIRS="): parse = it[len("PARSING_DIRS="):].split(":")
        elif it.startswith("CONFIG_DIRS="): conf = it[len("CONFIG_DIRS="):].split(":")
        elif it.startswith("ROOT_PREFIX="): root = it[len("ROOT_PREFIX="):]
        else: unknown = True; break
    optstr = ";".join(items)
    carr = lambda l: "{%s}" % ",".join(['"%s"' % x for x in l] + ["0"])
    hdr = '#define OPTSTRING "%s"\n#define EXPECT_UNKNOWN %d\n#define EXP_JOIN %d\n#define EXP_PYTHON %d\nstatic const char *const EXP_PARSE[] = %s;\n#define EXP_NPARSE %d\nstatic const char *const EXP_CONF[] = %s;\n#define EXP_NCONF %d\n#define EXP_ROOT %s\n' % (
        optstr, 1 if unknown else 0, join, py, carr(parse), len(parse), carr(conf), len(conf), "0" if root is None else '"%s"' % root)
    cap = max(len(optstr) + 2, 22)
    name = "opt-" + "".join(c if c.isalnum() else "_" for c in optstr)[:70]
    return Instance(name, "o_opts.c", {"STRCAP": max(cap, 9), "VCAP": 6, "VFS_MAXNODES": 2}, unwind=max(cap, 9) + 1,
                    unwindset=lib_unwinds(1, 2) + [(r"libeconf\.c", r"strsep", 7), (r"o_opts\.c", r"i < n", 6), (r"libeconf\.c", r"while \(\*array\)", 7)],
                    timeout=300, mem_gb=6, leak_check=True, gen_files={"layout.h": hdr}, functions="econf_newKeyFile_with_options, econf_freeFile, econf_freeArray",
                    bounds="option string %r (concrete); effects, error code and leak freedom checked" % optstr, expect_reach=[])

def c15(tier):
    seed = int(__import__("os").environ.get("VERIF_SEED", "0") or 0)
    import random, itertools
    rng = random.Random(1500 + seed)
    docs = ["JOIN_SAME_ENTRIES=1", "PYTHON_STYLE=1", "PARSING_DIRS=/a", "PARSING_DIRS=/a:/bb:/c", "CONFIG_DIRS=.d", "CONFIG_DIRS=.d:/x.d", "ROOT_PREFIX=/r", "ROOT_PREFIX=/tmp/q"]
    unk = ["JOIN_SAME_ENTRIES", "JOIN_SAME_ENTRIES=0", "PYTHON_STYLE=2", "PARSING_DIR=/a", "FOO=1", "join_same_entries=1"]
    insts = []
    combos = [[d] for d in docs] + [[u] for u in unk]
    combos += [["PARSING_DIRS=/a", "PARSING_DIRS=/bb:/c"], ["CONFIG_DIRS=.d:/x.d", "CONFIG_DIRS=.e"], ["ROOT_PREFIX=/r", "ROOT_PREFIX=/tmp/q"], ["JOIN_SAME_ENTRIES=1", "JOIN_SAME_ENTRIES=1"],
               ["PARSING_DIRS=/a:/bb:/c", "JOIN_SAME_ENTRIES=1", "PARSING_DIRS=/a"], ["JOIN_SAME_ENTRIES=1", "FOO=1"], ["FOO=1", "PYTHON_STYLE=1"], ["PARSING_DIRS=/a", "", "PYTHON_STYLE=1"]]
    kinds5 = ["JOIN_SAME_ENTRIES=1", "PYTHON_STYLE=1", "PARSING_DIRS=/a:/bb", "CONFIG_DIRS=.d:/x.d", "ROOT_PREFIX=/r"]
    combos += [[a, b] for a in kinds5 for b in kinds5 if a != b]
    for _ in range(8 if tier == "quick" else 60):
        k = rng.choice([2, 3, 4])
        combos.append([rng.choice(docs + (unk if rng.random() < 0.25 else [])) for _ in range(k)])
    if tier == "thorough":
        combos += [list(p) for p in itertools.permutations(docs[:7:2], 3)]
    seen = set()
    for c in combos:
        if ";".join(c) in seen or len(";".join(c)) > (38 if tier == "quick" else 46): continue
        seen.add(";".join(c)); insts.append(opt_inst(c))
    # JOIN_SAME_ENTRIES on objects, PYTHON_STYLE through the parser
    insts += join_insts(tier)
    insts += conv_family(tier, seed, python=True, sysl=False, per_class=4 if tier == "quick" else 16, tag="py", defs=("CHECK_KEYS",), delims=["eq", "sp"] if tier == "quick" else ["eq", "coleq", "sp", "sptab"],
                         comments=["hash"] if tier == "quick" else None, nlines=(2, 3), maxlen=20 if tier == "quick" else 30, kinds=["entry", "entry", "cont", "cont", "blank", "section"])
    # PYTHON_STYLE, fixed core: indented lines that contain the delimiter (directly after the first word / after a blank /
    # as last character), comment characters inside an indented line and inside a value
    for dn, cn in (("eq", "hash"), ("sp", "hash"), ("coleq", "both")) if tier == "quick" else [(d, c) for d in ("eq", "coleq", "sp", "sptab") for c in convgen.COMMENT_SETS]:
        dl, cm = convgen.DELIM_SETS[dn], convgen.COMMENT_SETS[cn]
        dch = "B" if dl.strip(" \t") == "" else "d"
        for tg, texts, vk in (("worddelim", ["nm" + dch + "V"], "plain1"), ("blankdelim", ["n " + dch + "V" if dch == "d" else "n" + dch + "V"], "plain3"), ("enddelim", ["nm" + dch], "plain1"),
                              ("two", ["n" + dch + "V", "n" + dch + "V"], "plain1"), ("hash", ["nhV"], "pyhash3")):
            L = convgen.Layout(dl, cm, True); f = convgen.seps_for(L)[0]
            L.entry("", 1, f, vk, "")
            for i, t in enumerate(texts):
                L.cont(["  ", "\t"][i % 2], python_text=t)
            L.entry("", 1, f, "plain1", "")
            insts.append(conv_inst("py-%s-%s-%s" % (dn, cn, tg), L, opts="PYTHON_STYLE=1", defs=("CHECK_KEYS",)))
    return {"instances": insts, "assumptions": COMMON_ASSUME + ["option strings are concrete per instance (fixed list + VERIF_SEED sample; permutations in thorough)",
            "JOIN_SAME_ENTRIES: the pairwise pass runs on objects with a concrete (section,key) pattern and a concrete pattern of empty definitions; value characters symbolic",
            "PYTHON_STYLE: generated layouts with indented lines that may contain the delimiter and comment characters (characters symbolic)"],
            "explanation": "option tokenizer effects/last-occurrence/unknown items, join pass against the reference of DESIGN.md 5.2, python-style parsing"}

def join_insts(tier):
    import itertools
    insts = []
    pats = ["aa", "aaa", "aba", "aab", "abab", "aaaa"] if tier == "quick" else ["".join(p) for n in (2, 3, 4) for p in itertools.product("ab", repeat=n)]
    secpats = {"aaa": ["sts", "sst"], "aba": ["sts"], "aaaa": ["stst", "stts"], "abab": ["sstt", "stts"]}
    for pat in pats:
        n = len(pat)
        for sp in secpats.get(pat, []) if tier == "quick" else ["".join(x) for x in itertools.product("st", repeat=n) if x[0] == "s" and "t" in x]:
            for ems in (["0" * n, "0" * (n - 1) + "1"] if tier == "quick" else ["".join(e) for e in itertools.product("01", repeat=n)]):
                d = {"STRCAP": 4 * n + 6, "VCAP": n + 2, "NENT": n, "KPAT": '"%s"' % pat, "EPAT": '"%s"' % ems, "SPAT": '"%s"' % sp, "VFS_MAXNODES": 2}
                insts.append(Instance("join-%s-s%s-e%s" % (pat, sp, ems), "j_join.c", d, unwind=4 * n + 7, unwindset=lib_unwinds(n, 4) + [(r"j_join\.c", r"i < NENT|j < NENT|p < |which < 4", n + 3), (r"libeconf_ext\.c", r"strsep", n + 3), (r"builtin-library-strncpy", r"", 18)],
                                      timeout=400, mem_gb=6, leak_check=True, functions="join_same_entries, econf_getStringValue, econf_getExtValue, econf_freeFile",
                                      bounds="entries with keys %s in sections %s (re-opened sections), definitions marked 1 in %s are empty, the others one symbolic non-blank character" % (pat, sp, ems), expect_reach=["end"]))
    for pat in pats:
        n = len(pat)
        empties = [e for e in itertools.product("01", repeat=n)]
        if tier == "quick": empties = [e for e in empties if sum(c == "1" for c in e) <= 1][:4]
        for em in empties:
            ems = "".join(em)
            d = {"STRCAP": 4 * n + 6, "VCAP": n + 2, "NENT": n, "KPAT": '"%s"' % pat, "EPAT": '"%s"' % ems, "VFS_MAXNODES": 2}
            inst = Instance("join-%s-e%s" % (pat, ems), "j_join.c", d, unwind=4 * n + 7, unwindset=lib_unwinds(n, 3) + [(r"j_join\.c", r"i < NENT|j < NENT|p < |which < 4", n + 3), (r"libeconf_ext\.c", r"strsep", n + 3), (r"builtin-library-strncpy", r"", 18)],
                            timeout=400, mem_gb=6, leak_check=True, functions="join_same_entries, econf_getStringValue, econf_getExtValue, econf_freeFile",
                            bounds="entries with keys %s (same section), definitions marked 1 in %s are empty, the others one symbolic non-blank character" % (pat, ems), expect_reach=["end"])
            insts.append(inst)
    return insts

def replace_inst(n):
    d = {"SLEN": n, "STRCAP": 16, "VCAP": 4, "VFS_MAXNODES": 2, "V_PATH_MAX": 32}
    inst = Instance("tool-replace-%d" % n, "x_replace.c", d, unwind=n + 8, unwindset=[], timeout=600, mem_gb=12, leak_check=False,
                    flags=["--max-field-sensitivity-array-size", str(n + 64)],
                    functions="util/econftool.c: replace_str", bounds="--delimiters option string of %d characters ending in the escape \\t (concrete)" % n, expect_reach=["end"])
    return inst

def c14(tier):
    BS, PM = 8, 16
    sc = {"V_BUFSIZ": BS, "V_PATH_MAX": PM}
    lens = [1, BS - 2, BS - 1, BS, BS + 1, BS + 2, 2 * BS] if tier == "thorough" else [BS - 1, BS, BS + 1, 2 * BS]
    insts = []
    defs = ("CHECK_META", "CHECK_EXT", "ROUNDTRIP")
    for n in lens:
        for field in ("key", "value", "quoted", "section", "comment_before", "comment_after", "cont"):
            L = convgen.Layout("=", "#"); f = ("", True, "")
            if field == "key": L.entry("", n, f, "plain1", "")
            elif field == "value": L.entry("", 1, f, "plainN%d" % n, "")
            elif field == "quoted": L.entry("", 1, f, "quotedN%d" % n, "")
            elif field == "section": L.section("", n, ""); L.entry("", 1, f, "plain1", "")
            elif field == "comment_before": L.comment_line("", n); L.entry("", 1, f, "plain1", "")
            elif field == "comment_after": L.entry("", 1, f, "plain1", " H" + "c" * n)
            elif field == "cont": L.entry("", 1, f, "plain1", ""); L.cont(" ", n, "")
            i = conv_inst("len-%s-%d" % (field, n), L, defs=defs, keep="", extra_defines=sc)
            i.functional_only = False    # buffer overruns are the subject: keep CBMC's bounds and pointer checks
            i.leak_check = True
            insts.append(i)
    for n in ([BS - 1, BS, 2 * BS + 2] if tier == "quick" else list(range(0, 2 * BS + 3))):
        insts.append(small("len-setget-%d" % n, "l_setget.c", {"VLEN": n, "STRCAP": 2 * BS + 6, "V_BUFSIZ": BS, "V_PATH_MAX": PM}, unwind=2 * BS + 7, E=2, G=2,
                           extra_uw=[(r"libeconf_ext\.c", r"strsep", 4), (r"builtin-library-strncpy", r"", 2 * BS + 8), (r"l_setget\.c", r"i < VLEN", 2 * BS + 6)],
                           functions="econf_setStringValue, econf_getStringValue, econf_getExtValue", bounds="value of %d characters (scaled BUFSIZ = %d) set through the API and fetched by the plain and the extended getter" % (n, BS)))
    for n in ([PM - 2, PM - 1, PM, PM + 2] if tier == "quick" else list(range(PM - 4, PM + 4))):
        insts.append(small("len-path-%d" % n, "l_path.c", {"PLEN": n, "STRCAP": 2 * PM + 8, "V_BUFSIZ": BS, "V_PATH_MAX": PM, "VFS_CONTENT": 6}, unwind=2 * PM + 9, E=2, G=2,
                           extra_uw=[(r"getfilecontents\.c", r"while \(getline", 3), (r"l_path\.c", r"i < PLEN", 2 * PM + 6)],
                           functions="econf_readFile, read_file (last scanned file name), econf_errLocation, econf_getPath", bounds="absolute file name of %d characters (scaled PATH_MAX = %d)" % (n, PM)))
    for n in ([12, 1023, 1024, 1030] if tier == "quick" else [12, 1000, 1022, 1023, 1024, 1025, 1030, 2100]):
        insts.append(replace_inst(n))
    return {"instances": insts, "assumptions": COMMON_ASSUME + ["SCALING: BUFSIZ := 8 and PATH_MAX := 16 (force-included); the library uses both only through the macros, so buffer-relative behaviour is preserved while the boundaries become reachable with short strings; the real 8192/4096 values and 64 Ki / 1 Mi fields are outside the bound",
            "field lengths are concrete per instance {BUFSIZ-1, BUFSIZ, BUFSIZ+1, 2*BUFSIZ} (more in thorough), field characters concrete letters (the subject is length, and lengths must be concrete for the symbolic execution)",
            "paths longer than PATH_MAX-1 are beyond the operating-system limit: for those only the absence of buffer overruns is claimed, not exact reporting",
            "util/econftool.c replace_str (escape translation of --delimiters; its buffer size was a literal 1024 that cannot be scaled) is driven unscaled with concrete option strings of 12..1030 (2100) characters"],
            "explanation": "every field kind at lengths around the (scaled) stdio buffer size through read, plain and extended getters, write and read-back, with CBMC's bounds checks"}

def c19(tier):
    if tier == "quick":
        hist = ["-.x", "-.x -.y", "A.x", "A.x -.y", "-.x A.y B.x", "A.x B.y A.y", "B.x A.x -.x"]
    else:
        import itertools
        hist = []
        for n in (1, 2, 3):
            for secs in itertools.product("-AB", repeat=n):
                for keys in itertools.product("xy", repeat=n):
                    hist.append(" ".join("%s.%s" % (a, b) for a, b in zip(secs, keys)))
    insts = []
    for h in hist:
        n = len(h.split())
        d = {"STRCAP": 16, "VCAP": 10, "VFS_CONTENT": 6, "VFS_MAXNODES": 3, "VFS_OUTCAP": 96, "FMTCAP": 40, "HIST": '"%s"' % h.replace(" ", ","), "NOPS": n, "V_PATH_MAX": 32}
        inst = Instance("tool-%s" % h.replace(" ", "_").replace(".", ""), "x_tool.c", d, unwind=17,
                        unwindset=lib_unwinds(n + 1, 4, lines=2, alloc=9) + [(r"x_tool\.c", r"i < NOPS|g < no|t < 2|\*s; s\+\+|q < VFS_OUTCAP", 98), (r"econftool\.c", r"g <= groupCount", 5), (r"econftool\.c", r"k < key_count", 4),
                                   (r"econftool\.c", r"values\[v\]", 4), (r"libeconf_ext\.c", r"strsep", 4), (r"vfs_cbmc\.c", r"i < l;", 42), (r"builtin-library-strncpy", r"", 34)],
                        timeout=400, mem_gb=8, leak_check=False, functions="util/econftool.c: pr_key_file, econf_read, print_error; econf_getGroups, econf_getKeys, econf_getExtValue",
                        bounds="object built by the setter history %s (concrete values, one of them two lines); single file good/malformed symbolic for the syntax check" % h, expect_reach=["end"])
        inst.functional_only = True
        insts.append(inst)
    return {"instances": insts, "assumptions": COMMON_ASSUME + ["the tool's own functions are driven directly (pr_key_file for show/cat, econf_read for syntax); argument parsing in main(), edit and revert, and the process exit status as seen by a shell are outside the check",
            "agreement with what an application gets: the tool calls econf_readFile / econf_readDirs / econf_readDirsHistory, which are the subject of C01/C12", "objects are concrete (printing depends on string lengths)"],
            "explanation": "econftool's printing and syntax-status functions executed by CBMC on enumerated objects; stdout captured and compared with the expected listing"}

def c13(tier):
    seed = int(__import__("os").environ.get("VERIF_SEED", "0") or 0)
    insts = conv_family(tier, seed, err=True, sysl=False, per_class=3 if tier == "quick" else 14, tag="err", defs=(), delims=["eq", "coleq", "sp", "speq"] if tier == "quick" else None,
                        nlines=(1, 2, 2) if tier == "quick" else (1, 2, 3), maxlen=16 if tier == "quick" else 30)
    insts += conv_family(tier, seed + 7, err=True, sysl=False, per_class=2 if tier == "quick" else 8, tag="errjoin", defs=(), delims=["eq", "sp"] if tier == "quick" else ["eq", "coleq", "sp", "sptab"],
                         comments=["hash"], nlines=(1, 2, 2) if tier == "quick" else (1, 2, 3), maxlen=16 if tier == "quick" else 30, opts="JOIN_SAME_ENTRIES=1")
    insts += fault_insts(tier, range(6), (2,), seed, 1 if tier == "quick" else 8)
    insts.append(r_inst(0, expect=["restrictions lifted by reset"]))
    insts.append(small("errstring", "e_errstring.c", {}, unwind=64, functions="econf_errString", bounds="every code 0..24 of enum econf_err (symbolic)", leak=False))
    return {"instances": insts, "assumptions": COMMON_ASSUME + D_ASSUME + ["malformed-line layouts are generated like the conventional ones (concrete layout, symbolic characters)"],
            "explanation": "parse errors: specific code, file and 1-based line, nothing partial; n-th drop-in failure aborts the layered read; missing file; code/message table"}

def c20(tier):
    seed = int(__import__("os").environ.get("VERIF_SEED", "0") or 0)
    insts = fault_insts(tier, range(6), (1, 2, 3), seed, 1 if tier == "quick" else 6)
    insts += [r_inst(1), r_inst(0, expect=["restrictions lifted by reset"])]
    insts += step_insts(0, "quick", 2)[:8]
    for entry in range(6):      # successful reads with masked drop-ins: intermediates and masked files released
        layers = 2 if entry < 4 else 3
        insts.append(d_inst(entry, layers, "A", [[1] * 5] * layers))
        insts.append(d_inst(entry, layers, "A", [[0, 1, 1, 0, 1]] + [[1, 1, 1, 0, 1]] * (layers - 1)))
    return {"instances": insts, "assumptions": COMMON_ASSUME + D_ASSUME + ["leak check: CBMC --memory-leak-check (tracks one nondeterministically chosen allocation, i.e. every allocation) on all harnesses; double free / use after free by the built-in pointer checks",
            "uninitialised reads: fresh heap memory has arbitrary contents in CBMC, so a read of a never-written field makes the harness assertions on it fail"],
            "explanation": "every early-return path of the layered read with a failure injected at a chosen consulted file, plus API histories, under CBMC's leak / double-free / use-after-free checks"}

REGISTRY = {"C19": c19, "C14": c14, "C15": c15, "C07": c07, "C05": c05, "C17": c17, "C06": c06, "C12": c12, "C13": c13, "C16": c16, "C20": c20, "C01": c01, "C02": c02, "C10": c10, "C11": c11, "C03": c03, "C04": c04, "C08": c08, "C09": c09}

def get(prop, tier):
    if prop not in REGISTRY:
        raise SystemExit("no check registered for " + prop)
    return REGISTRY[prop](tier)
