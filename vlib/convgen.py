"""Generator of conventional-file layouts (DESIGN.md 5.1) with the expected parse result
constructed alongside (spans into the generated file).  Output: layout.h text for harness/p_conv.c."""
import random

DELIM_SETS = {"eq": "=", "coleq": ":=", "sp": " ", "sptab": " \t", "speq": " =", "tabspeq": "\t =", "none": ""}
COMMENT_SETS = {"hash": "#", "semi": ";", "both": "#;"}
ERR = {"MISSING_BRACKET": 9, "MISSING_DELIMITER": 10, "EMPTY_SECTION_NAME": 11, "TEXT_AFTER_SECTION": 12}


def cstr(s):
    out = ""
    for ch in s:
        if ch == "\n": out += "\\n"
        elif ch == "\t": out += "\\t"
        elif ch == '"': out += '\\"'
        elif ch == "\\": out += "\\\\"
        else: out += ch
    return out


class Layout:
    def __init__(self, delim, comment, python=False):
        self.delim, self.comment, self.python = delim, comment, python
        self.tpl = ""
        self.exps = []      # dict(sec,key,(pieces)|None,line,cb,ca,first)
        self.secs = []      # (a,l)
        self.rels = []      # (a1,l1,a2,l2,eq)
        self.err = None     # (code, line)
        self.line = 0
        self.cur_sec = -1
        self.pending = []   # comment-before spans
        self.last_entry_line = -1
        self.desc = []
        self.has_wsp = any(c in " \t" for c in delim)
        self.has_nonwsp = any(c not in " \t" for c in delim)
        self.mixed = self.has_wsp and self.has_nonwsp

    # ---- emit helpers ----
    def put(self, s):
        a = len(self.tpl)
        self.tpl += s
        return a

    def nl(self, final_nl=True):
        if final_nl:
            self.put("\n")

    def blank(self, indent="", final_nl=True):
        self.line += 1
        self.put(indent)
        self.nl(final_nl)
        self.desc.append("blank")

    def comment_line(self, indent="", n=1, final_nl=True, code="c"):
        self.line += 1
        self.put(indent)
        self.put("h")
        a = self.put(code * n)
        self.pending.append((a, n))
        self.nl(final_nl)
        self.desc.append("comment%d" % n)

    def section(self, indent="", n=1, trail="", same_as=None, final_nl=True):
        self.line += 1
        self.put(indent + "[")
        a = self.put("S" if n == 1 else "S" + "s" * (n - 2) + "S")
        self.put("]" + trail)
        self.nl(final_nl)
        if same_as is not None and same_as < len(self.secs) and self.secs[same_as][1] == n:
            self.rels.append((a, n) + self.secs[same_as] + (1,))
            self.cur_sec = same_as
            self.desc.append("section(reopen %d)" % same_as)
        else:
            for (a2, l2) in self.secs:
                if l2 == n:
                    self.rels.append((a, n, a2, l2, 0))
            self.secs.append((a, n))
            self.cur_sec = len(self.secs) - 1
            self.desc.append("section%d" % n)

    def entry(self, indent="", klen=1, sep=None, vkind="plain1", tail="", dup_of=None, final_nl=True):
        """sep: (pre, use_delim_char, post) ; vkind in none|empty|plain1|plain3|quoted0|quoted2|quoted3"""
        self.line += 1
        self.put(indent)
        ka = self.put("K" + "k" * (klen - 1))
        pieces = None
        if self.delim == "":
            vkind = "none"
        else:
            pre, usechar, post = sep
            self.put(pre + ("d" if usechar else "") + post)
            first = "W" if self.mixed else "V"
            if vkind == "empty":
                pieces = [(len(self.tpl), 0)]
            elif vkind == "plain1":
                pieces = [(self.put(first), 1)]
            elif vkind == "plain3":
                pieces = [(self.put(first + "vV"), 3)]
            elif vkind == "pyhash3":     # PYTHON_STYLE only: a comment character inside the value stays part of the value
                assert self.python
                pieces = [(self.put(first + "hV"), 3)]
            elif vkind.startswith("plainN"):
                k = int(vkind[6:]); pieces = [(self.put(first + "v" * (k - 2) + "V" if k >= 2 else first), k)]
            elif vkind.startswith("quotedN"):
                k = int(vkind[7:]); self.put('"'); pieces = [(self.put("q" * k), k)]; self.put('"')
            elif vkind == "quoted0":
                self.put('"'); pieces = [(len(self.tpl), 0)]; self.put('"')
            elif vkind == "quoted2":
                self.put('"'); pieces = [(self.put("qq"), 2)]; self.put('"')
            elif vkind == "quoted3":
                self.put('"'); pieces = [(self.put("qqq"), 3)]; self.put('"')
        ca = []
        if tail:
            # tail: string over {' ', '\t', 'H' (comment char), 'c'}; comment text = the c's after H
            i = tail.find("H")
            if i < 0:
                self.put(tail)
            else:
                self.put(tail[:i]); self.put("h")
                n = len(tail) - i - 1
                a = self.put("c" * n)
                ca = [(a, n)]
        self.nl(final_nl)
        # relations between keys of the same section
        first_idx = len(self.exps)
        # (equality is an equivalence: an entry that repeats entry j equals every earlier entry that equals j)
        dup_cls = None
        if dup_of is not None and dup_of < len(self.exps) and self.exps[dup_of]["sec"] == self.cur_sec and self.exps[dup_of]["key"][1] == klen:
            dup_cls = self.exps[dup_of]["first"]
        for j, ex in enumerate(self.exps):
            if ex["sec"] != self.cur_sec or ex["key"][1] != klen:
                continue
            if dup_cls is not None and ex["first"] == dup_cls:
                self.rels.append((ka, klen) + ex["key"] + (1,))
                first_idx = dup_cls
            else:
                self.rels.append((ka, klen) + ex["key"] + (0,))
        self.exps.append(dict(sec=self.cur_sec, key=(ka, klen), pieces=pieces if vkind != "none" else None, line=self.line,
                              cb=list(self.pending), ca=ca, first=first_idx, quoted=vkind.startswith("quoted")))
        self.pending = []
        self.last_entry_line = self.line
        self.desc.append("entry(%s%s%s)" % (vkind, ",tail" if tail else "", ",dup" if first_idx != len(self.exps) - 1 else ""))

    def cont(self, indent=" ", n=1, trail="", final_nl=True, python_text=None, tail=""):
        """continuation line; only valid directly after an entry/cont line"""
        assert self.last_entry_line == self.line and not self.mixed and self.delim != ""
        self.line += 1
        a0 = len(self.tpl)
        self.put(indent)
        a1 = len(self.tpl)
        body = python_text if python_text is not None else ("n" if n == 1 else "n" + "M" * (n - 2) + "m")
        if self.has_wsp:
            trail = ""          # under a blank delimiter a trailing blank would make the line "key<delim>"
        self.put(body + trail)
        if tail and not self.python:
            # trailing comment on a continuation line: the value keeps the raw text up to the comment character
            if self.has_wsp: tail = tail.lstrip(" \t")
            i = tail.find("H")
            self.put(tail[:i])
            end = len(self.tpl)
            self.put("h" + "c" * (len(tail) - i - 1))
        else:
            end = len(self.tpl)
        self.nl(final_nl)
        ex = self.exps[-1]
        start = a1 if self.python else a0
        ex["pieces"].append((start, end - start))
        ex["line"] = self.line
        self.last_entry_line = self.line
        self.desc.append("cont%d" % n)

    def malformed(self, kind, final_nl=True):
        self.line += 1
        if kind == "nobracket":
            self.put("[SsS"); code = "MISSING_BRACKET"
        elif kind == "textafter":
            self.put("[S]S"); code = "TEXT_AFTER_SECTION"
        elif kind == "emptyname":
            self.put("[]"); code = "EMPTY_SECTION_NAME"
        elif kind == "emptyname_sp":
            self.put("[] "); code = "EMPTY_SECTION_NAME"
        elif kind == "nodelim":
            assert self.has_nonwsp and not self.has_wsp
            self.put("Kk m"); code = "MISSING_DELIMITER"
        else:
            raise ValueError(kind)
        self.nl(final_nl)
        if self.err is None:
            self.err = (ERR[code], self.line)
        self.desc.append("malformed(%s)" % kind)

    # ---- output ----
    def concretize(self, keep):
        """replace every class code not in `keep` by a representative literal of its class; spans related by
        equality get equal literals, all other positions get pairwise different literals"""
        reps_other = "0123456789ACDEFGIJLNOPQRTUYZ"   # never a class code letter
        nb_delim = [c for c in self.delim if c not in " \t"]
        root = {}
        for (a1, l1, a2, l2, eq) in self.rels:
            if eq:
                for i in range(l1): root[a1 + i] = root.get(a2 + i, a2 + i)
        assigned = {}
        out = []
        for p, ch in enumerate(self.tpl):
            if ch not in "KkVWvqcSsbBdhmnMx" or ch in keep:
                out.append(ch); continue
            if ch in "bB": out.append(" " if (" " in self.delim or ch == "b") else "\t")
            elif ch == "d": out.append(nb_delim[0])
            elif ch == "h": out.append(self.comment[0])
            else:
                r = root.get(p, p)
                if r not in assigned: assigned[r] = reps_other[len(assigned) % len(reps_other)]
                out.append(assigned[r])
        self.tpl = "".join(out)
        return self

    def header(self, opts="", extra_defs=(), roundtrip=False):
        L = []
        n = len(self.tpl)
        L.append("#define FLEN %d" % n)
        L.append('static const char TPL[FLEN + 1] = "%s";' % cstr(self.tpl))
        L.append('#define DELIM "%s"' % cstr(self.delim))
        L.append('#define COMMENT "%s"' % cstr(self.comment))
        L.append('#define OPTS "%s"' % opts)
        for d in extra_defs:
            L.append("#define %s" % d)
        L.append("struct span { short a, l; };")
        L.append("struct rel { short a1, l1, a2, l2; unsigned char equal; };")
        L.append("#define MAXP 4")
        L.append("struct exp { short sec, key_a, key_l, nv; short va[MAXP], vl[MAXP]; short line, first, ncb; short cba[MAXP], cbl[MAXP]; short nca; short caa[MAXP], cal[MAXP]; short quoted; };")
        L.append("#define NEXP %d" % len(self.exps))
        rows = []
        for ex in self.exps:
            p = ex["pieces"]
            nv = -1 if p is None else len(p)
            pp = (p or []) + [(0, 0)] * 4
            cb = ex["cb"] + [(0, 0)] * 4
            ca = ex["ca"] + [(0, 0)] * 4
            rows.append("{%d,%d,%d,%d,{%s},{%s},%d,%d,%d,{%s},{%s},%d,{%s},{%s},%d}" % (
                ex["sec"], ex["key"][0], ex["key"][1], nv, ",".join(str(x[0]) for x in pp[:4]), ",".join(str(x[1]) for x in pp[:4]),
                ex["line"], ex["first"], len(ex["cb"]), ",".join(str(x[0]) for x in cb[:4]), ",".join(str(x[1]) for x in cb[:4]),
                len(ex["ca"]), ",".join(str(x[0]) for x in ca[:4]), ",".join(str(x[1]) for x in ca[:4]), 1 if ex.get("quoted") else 0))
        L.append("static const struct exp EXP[NEXP + 1] = {%s%s{0}};" % (",".join(rows), "," if rows else ""))
        L.append("#define NSEC %d" % len(self.secs))
        L.append("static const struct span SEC[NSEC + 1] = {%s%s{0,0}};" % (",".join("{%d,%d}" % s for s in self.secs), "," if self.secs else ""))
        L.append("#define NREL %d" % len(self.rels))
        L.append("static const struct rel REL[NREL + 1] = {%s%s{0,0,0,0,0}};" % (",".join("{%d,%d,%d,%d,%d}" % r for r in self.rels), "," if self.rels else ""))
        if roundtrip:
            cn = self.canon()
            hch = self.comment[0]
            vals = [(-ord(hch) if isinstance(x, tuple) else x) for x in cn]
            L.append("#define CLEN %d" % len(vals))
            L.append("static const short CANON[CLEN + 1] = {%s%s0};" % (",".join(str(v) for v in vals), "," if vals else ""))
            cends = [i + 1 for i, v in enumerate(vals) if v == -10]
            L.append("#define CNLINES %d" % len(cends))
            L.append("static const short CANON_ENDS[CNLINES + 1] = {%s%s0};" % (",".join(str(e) for e in cends), "," if cends else ""))
            # sections that bear keys, in order of first appearance among the entries
            ks = []
            for ex in self.exps:
                if ex["sec"] >= 0 and ex["sec"] not in ks: ks.append(ex["sec"])
            L.append("#define NKSEC %d" % len(ks))
            L.append("static const short KSEC[NKSEC + 1] = {%s%s0};" % (",".join(str(k) for k in ks), "," if ks else ""))
        ends = [i + 1 for i, ch in enumerate(self.tpl) if ch == "\n"]
        if n and not self.tpl.endswith("\n"): ends.append(n)
        L.append("#define NLINES %d" % len(ends))
        L.append("static const short LINE_ENDS[NLINES + 1] = {%s%s0};" % (",".join(str(e) for e in ends), "," if ends else ""))
        if self.err:
            L.append("#define EXPECT_ERR %d\n#define ERR_LINE %d" % self.err)
        else:
            L.append("#define EXPECT_ERR 0\n#define ERR_LINE 0")
        return "\n".join(L) + "\n"

    def canon(self):
        """canonical serialisation (DESIGN.md 5.4) of the expected object: list of ints, >= 0 index into the
        source file (a field character), < 0 minus the literal byte"""
        out = []
        lit = lambda t: out.extend(-ord(c) for c in t)
        span = lambda a, l: out.extend(range(a, a + l))
        dch = self.delim[0]
        hpos = None
        prev = None
        for i, ex in enumerate(self.exps):
            g = ex["sec"]
            if i == 0 or g != prev:
                if i: lit("\n")
                if g >= 0:
                    lit("["); span(*self.secs[g]); lit("]\n")
            prev = g
            for (a, l) in ex["cb"]:
                out.append(("H",)); span(a, l); lit("\n")
            span(*ex["key"]); lit(dch)
            if ex["pieces"] is not None:
                q = ex.get("quoted", False)
                if q: lit('"')
                for j, (a, l) in enumerate(ex["pieces"]):
                    if j: lit("\n")
                    span(a, l)
                if q: lit('"')
            for (a, l) in ex["ca"]:
                lit(" "); out.append(("H",)); span(a, l); lit("\n")
            lit("\n")
        return out

    def valid(self):
        return all(len(ex["cb"]) <= 4 and (ex["pieces"] is None or len(ex["pieces"]) <= 4) for ex in self.exps)


def seps_for(L, rng=None, all_forms=False):
    """separator forms (pre, use_char, post) for the layout's delimiter class"""
    if L.delim == "":
        return [None]
    if L.has_nonwsp and not L.has_wsp:
        forms = [("", True, ""), (" ", True, ""), ("", True, " "), (" ", True, "\t "), ("b", True, "b")]
    elif L.has_wsp and not L.has_nonwsp:
        forms = [(" ", False, ""), ("\t", False, "") if "\t" in L.delim else (" ", False, " "), (" ", False, " "), ("b", False, "")]
        forms = [f for f in forms if all(ch in L.delim or ch == "b" for ch in f[0] + f[2])] or [(" ", False, "")]
        # only blanks that are delimiters or plain isspace blanks may separate: the parser ends the key at any isspace
        # the blanks between key and value must be members of the delimiter set ('B' = symbolic member)
        if "\t" in L.delim:
            forms = [(" ", False, ""), (" ", False, " "), ("\t", False, ""), ("B", False, "B")]
        else:
            forms = [(" ", False, ""), (" ", False, " "), ("  ", False, ""), ("B", False, "B")]
    else:
        forms = [("", True, ""), (" ", True, " "), (" ", False, ""), ("", True, " "), ("\t", False, " ")]
    return forms


def random_layout(rng, delim, comment, nlines, want_err=False, python=False, meta=False, only_kinds=None, min_comment=0):
    """one random conventional file of nlines lines (plus, if want_err, one malformed line at a random position)"""
    L = Layout(delim, comment, python)
    forms = seps_for(L)
    kinds = only_kinds or ["blank", "comment", "section", "entry", "entry", "cont"]
    err_pos = rng.randrange(nlines) if want_err else -1
    for i in range(nlines):
        last = i == nlines - 1
        fin = (not last) or rng.random() < 0.6
        if i == err_pos:
            opts = ["nobracket", "textafter", "emptyname", "emptyname_sp"]
            if L.has_nonwsp and not L.has_wsp and not (L.last_entry_line == L.line and L.line > 0):
                opts.append("nodelim")      # directly after an entry such a line is a continuation, not an error
            L.malformed(rng.choice(opts), final_nl=fin)
            break
        k = rng.choice(kinds)
        can_cont = L.last_entry_line == L.line and L.line > 0 and not L.mixed and L.delim != "" and L.exps and L.exps[-1]["pieces"] is not None \
            and len(L.exps[-1]["pieces"]) < 3 and not (meta and L.exps[-1]["ca"]) and not (meta and L.exps[-1]["pieces"][0][1] == 0)
        if k == "cont" and not can_cont:
            k = "entry"
        if k == "blank":
            L.blank(rng.choice(["", " ", "\t "]), final_nl=fin if not last else True)
        elif k == "comment":
            L.comment_line(rng.choice(["", " ", "\t"]), rng.choice([c for c in (0, 1, 2, 3) if c >= min_comment]), final_nl=fin)
        elif k == "section":
            same = None
            if L.secs and rng.random() < 0.3:
                same = rng.randrange(len(L.secs))
            n = rng.choice([1, 2, 3])
            if same is not None:
                n = L.secs[same][1]
            L.section(rng.choice(["", " "]), n, rng.choice(["", " ", "\t"]), same_as=same, final_nl=fin)
        elif k == "entry":
            dup = None
            cands = [j for j, ex in enumerate(L.exps) if ex["sec"] == L.cur_sec]
            klen = rng.choice([1, 2])
            if cands and rng.random() < 0.35:
                dup = rng.choice(cands)
                klen = L.exps[dup]["key"][1]
            vk = rng.choice(["empty", "plain1", "plain3", "quoted0", "quoted2", "quoted3"])
            tail = "" if python else rng.choice(["", "", " ", "\t", " Hc", "Hcc", " H", "  Hccc"])
            if L.has_wsp and not L.has_nonwsp and "\t" not in L.delim: tail = tail.replace("\t", " ")
            if min_comment and tail.endswith("H"): tail = tail + "c"
            if python and vk.startswith("quoted"):
                vk = "plain3"
            L.entry(rng.choice(["", " ", "\t"]) if not python else "", klen, rng.choice(forms), vk, tail, dup_of=dup, final_nl=fin)
        elif k == "cont":
            L.cont(rng.choice([" ", "\t", "  "]), rng.choice([1, 2, 3]), rng.choice(["", " "]), final_nl=fin,
                   tail="" if (meta or python) else rng.choice(["", "", "Hc", " Hcc", "H"]))
    return L


def systematic_layouts(delim, comment, meta=False):
    """one-factor-at-a-time sweep: every entry form (separator x value kind x tail), every line kind next to an entry"""
    out = []
    probe = Layout(delim, comment)
    forms = seps_for(probe)
    vks = ["empty", "plain1", "plain3", "quoted0", "quoted2"] if delim else ["none"]
    tails = ["", " ", " Hc", "Hcc"]
    for f in forms:
        for vk in vks:
            for t in tails:
                L = Layout(delim, comment)
                L.entry("", 1, f, vk, t)
                out.append(L)
    # neighbours: X then entry, entry then X
    for kind in ("blank", "comment", "section", "cont", "entry", "dup"):
        for order in (0, 1):
            L = Layout(delim, comment)
            def ent(dup=None): L.entry("", 2, forms[0], "plain1" if delim else "none", "", dup_of=dup)
            def other():
                if kind == "blank": L.blank(" ")
                elif kind == "comment": L.comment_line("", 2)
                elif kind == "section": L.section("", 2, "")
                elif kind == "entry": L.entry(" ", 1, forms[-1], "quoted2" if delim else "none", "")
                elif kind == "dup": L.entry("", 2, forms[0], "plain3" if delim else "none", "", dup_of=0 if L.exps else None)
                elif kind == "cont":
                    if L.last_entry_line == L.line and L.line > 0 and not L.mixed and delim: L.cont(" ", 2, "", tail=" Hc" if order else "")
                    else: L.blank("")
            if order == 0: other(); ent()
            else: ent(); other()
            out.append(L)
    return out
