#!/bin/bash
# usage: try_mutation.sh <patch.diff> <prop> [<prop> ...]   -- applies the patch to a scratch worktree of /repo HEAD,
# runs the quick checks of the given properties against it (VERIF_REPO), prints the verdicts, removes the worktree.
patch=$(realpath $1); shift
wt=$(mktemp -d /tmp/mutwt-XXXXXX); rmdir $wt
git -C /repo worktree add -q $wt HEAD || exit 3
if ! git -C $wt apply "$patch"; then echo "PATCH-DOES-NOT-APPLY $patch"; git -C /repo worktree remove --force $wt; exit 3; fi
for p in "$@"; do
  out=$(cd /verif && VERIF_NO_EVIDENCE=1 VERIF_REPO=$wt VERIF_JOBS=${VERIF_JOBS:-8} timeout 1500 ./check $p --tier ${TIER:-quick} 2>&1); rc=$?
  echo "MUT $(basename $(dirname $patch))/$(basename $(dirname $(dirname $patch))) prop=$p rc=$rc $(echo "$out" | grep -c '^VIOLATION') violations; $(echo "$out" | grep '^SUMMARY' | cut -c1-160)"
  echo "$out" | grep -E "^  instance" | head -3 | cut -c1-260
done
git -C /repo worktree remove --force $wt
