#!/usr/bin/env python3
"""Regenerates /verif/MANIFEST.json from the table below (keeps the file valid at all times)."""
import json, os, subprocess
V = os.path.dirname(os.path.dirname(os.path.abspath(__file__)))
TECH = "bounded model checking of the real C sources with CBMC 6.11 (goto-cc from /repo's tree, SAT), counterexamples and reachability witnesses replayed natively under ASan/UBSan"
CHECKS = {
 # id: (category, level text, level note, design_ref, technique override)
 "C01": ("model_checking", "For every enumerated tree shape (2 and 3 layers; per layer main file absent/with content/empty/link to /dev/null, drop-in directory present or not, presence pattern of three candidate names whose byte order differs from numeric and case-insensitive order, names without suffix, dot files; suffix given with/without dot, absent or empty) each entry point returns exactly the reference result for every choice of stored values: consulted sequence, masking, override order, file-not-found.",
         "tree shapes are concrete per instance (must-have shapes + VERIF_SEED-driven sample; all shapes in thorough for 2 layers); values symbolic; reader replaced by its contract in the CBMC query, real reader+parser in the native replay of every witness; parsing/merging semantics from C02/C03", "5.3, 6/C01", None),
 "C02": ("model_checking", "For each enumerated layout of a conventional file (line kinds, optional blanks, quotes, trailing comments, continuation lines, re-opened sections, repeated keys; every delimiter class and comment set) the real parser returns exactly the expected sections, keys, values and first-definition lookups for every choice of field characters within their grammar class (symbolic).",
         "layouts are concrete per instance (systematic sweep + VERIF_SEED-driven sample); bounds: <= 3 lines / <= 40 bytes per file; expected result constructed with the layout; memory-safety obligations of the same code are C04's", "5.1, 6/C02", None),
 "C12": ("model_checking", "All six entry points are compared with one reference (consulted sequence with own path and content; fold with masking) on identical tree instances, including the layered read configured with the same two directories and all suffix spellings.",
         "agreement through the common reference; as C01", "6/C12", None),
 "C13": ("model_checking", "Generated conventional files with one injected malformed line of each kind at each position: specific error code, file path and 1-based line, NULL out-pointer; n-th consulted file malformed in every entry point aborts with that code and nothing partial; missing file; code/message table complete and distinct.",
         "layouts concrete, characters symbolic (as C02); as C01 for the layered part", "6/C13", None),
 "C14": ("model_checking", "Under scaled BUFSIZ=8 / PATH_MAX=16 every field kind (key, value, quoted value, section, comment before/after, continuation line) at lengths BUFSIZ-1, BUFSIZ, BUFSIZ+1, 2*BUFSIZ (more in thorough) is parsed, returned by the plain and extended getters, written and read back whole, with CBMC's bounds checks on every buffer; values through the setter/getter API at the same lengths; absolute file names around the scaled PATH_MAX.",
         "SCALED model: the real 8192/4096 sizes and 64Ki/1Mi fields are outside the bound; lengths and characters concrete per instance; econftool's unscalable 1024-byte buffer not covered", "6/C14", None),
 "C15": ("model_checking", "Option strings (every documented item alone, repeated, combined in sampled orders, with unknown/misspelt/empty items): accepted iff all items documented, each effect as documented with last occurrence winning, option-not-found otherwise, no leak. JOIN_SAME_ENTRIES pass on objects with enumerated key and empty-definition patterns (symbolic value characters) against the reference of DESIGN.md 5.2. PYTHON_STYLE on generated layouts with indented lines containing delimiter and comment characters.",
         "option strings and join patterns concrete per instance; python layouts as C02", "5.2, 6/C15", None),
 "C16": ("model_checking", "Reader harness decides every combination of file owner/group/kind with every combination of active restrictions, required ids and reset; layered-read harness shows every entry point aborts with the restriction's code on the refused file and hands back no content.",
         "kernel ownership/symlink semantics modelled by lstat attributes", "6/C16", None),
 "C17": ("model_checking", "For each enumerated layout the stored and the extended metadata of every key equal the spans of the generated file: absolute path (also for a relative name), line on which the entry ends, preceding comment lines, trailing comment, blank-trimmed value lines; all field characters symbolic.",
         "layouts concrete per instance; realpath model for relative names (real realpath in the native replay)", "5.1, 6/C17", None),
 "C18": ("other", "Sequential footprint reduction decided with CBMC: every object with static storage in the library (from the goto binary of the current tree) is either on the documented allow-list or shown by cover queries to be unreachable from public API calls on private objects with in-domain arguments; libc functions with hidden static state are absent; a multi-threaded driver under ThreadSanitizer is the replay. Interleavings are not explored.",
         "reduction argument trusted (glibc allocator/stdio thread-safe; all other memory reachable only from the call's own arguments)", "6/C18", "static-footprint reduction: CBMC symbol table + goto-program scan + cover (reachability) queries; ThreadSanitizer replay of a multi-threaded driver"),
 "C19": ("model_checking", "econftool's own printing function (show/cat) executed by CBMC on enumerated objects (only group-less keys / only sections / both / re-opened sections / multi-line value): the captured stdout equals the expected listing exactly; the syntax command's status is non-zero exactly when the library reports an error (file content symbolic good/malformed).",
         "objects concrete (printing depends on string lengths); main()'s argument parsing, edit/revert and the shell-visible exit status are outside; tree semantics via C01/C12", "6/C19", None),
 "C20": ("model_checking", "CBMC's leak, double-free, use-after-free and invalid-free checks on every early-return path of the six entry points (failure of each kind injected at a chosen consulted file), on the reader's failure paths and on API operation steps; out-pointers NULL / untouched / valid.",
         "leak tracking is CBMC's (one nondeterministically chosen allocation per run = all allocations); allocation failure out of scope", "6/C20", None),
 "C03": ("model_checking", "For every pair of entry lists within the length bound (all section interleavings incl. re-opened sections, duplicates, empty sides, constructor-made empty objects; keys symbolic) the merge result satisfies each clause of the statement and every array write stays inside base+override entries.",
         "entry counts and section patterns are concrete per instance (all patterns up to A<->B renaming are enumerated as instances), keys symbolic; objects built in the parser's memory shape", "6/C03", None),
 "C10": ("model_checking", "Every read-only API call (8 typed getters, Def getters, extended getter, listings, path and tag queries), with every section/key argument spelling, leaves every byte of an arbitrary valid object unchanged; one step from an arbitrary state, sequences by induction.",
         "states: up to 2 (quick) / 3 (thorough) entries over concrete section patterns, symbolic keys and value bytes; write/merge as users are covered by C07/C03 harnesses", "6/C10", None),
 "C11": ("model_checking", "One operation (set/get/getDef/list, symbolic arguments incl. bracketed/NULL/empty section, NULL/empty key, NULL object) from every valid pre-state matches the reference ordered map and re-establishes the representation invariant; histories of any length follow by induction over the invariant.",
         "the invariant (entries + owned section list + pre-initialised tail) is the trusted inductive hypothesis; universe of 4 sections x 3 keys", "6/C11", None),
 "C04": ("model_checking", "Every CBMC memory-safety/overflow obligation of the parser is discharged for all byte strings up to the length bound (byte strings enumerated by line structure, all other bytes symbolic incl. NUL; delimiter classes, comment sets, JOIN/PYTHON options), the parsed object satisfies the representation invariant I, and the getters, listings and merge are discharged with the same checks from arbitrary states satisfying I; not a proof beyond the bound.",
         "bounds: file length/lines per instance (see evidence); libc/stdio models in env/; capacity model of strdup/realloc; allocation failure out of scope", "6/C04", None),
 "C05": ("model_checking", "For each enumerated layout containing comment lines (with and without indentation, before/after/between entries and section headers, blocks) the parse result equals the expectation that ignores comment lines, for every comment text over all byte values except NL/NUL (further comment characters, delimiters, quotes, brackets) - decided symbolically.",
         "layouts concrete (fixed core + VERIF_SEED sample), <= 3-4 lines; in two of three instances the non-comment fields are representative literals", "5.1, 6/C05", None),
 "C06": ("model_checking", "Reader harness: for every owner/group/link/restriction/callback-verdict combination the callback is consulted exactly once, after the restriction checks and before the file is opened, with the path and data pointer given. Layered-read harness: through each callback entry point the callback sees exactly the consulted sequence in order and one rejection (main file, k-th or masked drop-in) yields the callback-failed code and no content or history.",
         "as C01; position of the rejected file concrete per instance", "6/C06", None),
 "C07": ("model_checking", "Parsed conventional files (enumerated layouts: comments before and after, quoted/empty/plain values, continuation lines, re-opened sections) are written, the bytes compared with the canonical serialisation, read back with the same delimiter and comment character and compared entry by entry; setter histories (all interleavings of group-less and sectioned keys, re-opened sections, overwrites up to the length bound) are written and read back and compared through the listing and string getters.",
         "strings that pass through the writer are concrete except in layouts <= 9 bytes (writer output positions depend on string lengths); field characters are symbolic on the parsing side (C02); delimiter in {=,:,space}, comment in {#,;}", "5.4, 6/C07", None),
 "C08": ("model_checking", "For every value of each numeric type (all bit patterns) and every case variant of the boolean words the set/get pair is exact; decided symbolically, not sampled.",
         "printf/strto* axiomatised by tokens (C11 7.22.1.4, IEEE-754 round trip); write/read half by composition with C07", "6/C08", None),
 "C09": ("model_checking", "For every literal within the digit bounds (decimal near every type limit and beyond 64 bits, octal to 69 bits, hex to 68 bits) the integer getters return the mathematical value or an error; boolean getter decided for every byte string up to the length bound; valueless keys never dereferenced.",
         "reference strto* models (digit level) in env/libc_model.c; floats pass-through only", "6/C09", None),
}
def main():
    commits = subprocess.run(["git", "-C", "/repo", "log", "--format=%h %s"], capture_output=True, text=True).stdout.strip().split("\n")
    props = [json.loads(l) for l in open(os.path.join(V, "properties.jsonl"))]
    na_path = os.path.join(V, "vlib", "not_applicable.json")
    na = json.load(open(na_path)) if os.path.exists(na_path) else {}
    checks = []
    for p in props:
        pid = p["id"]
        if pid not in CHECKS:
            continue
        cat, text, note, ref, tech = CHECKS[pid]
        checks.append({"property_id": pid, "quick_cmd": "./check %s --tier quick" % pid, "thorough_cmd": "./check %s --tier thorough" % pid,
                       "evidence_file": "evidence/%s.json" % pid, "replay_cmd_template": "./check %s --replay {path}" % pid, "engine": "cbmc-harness",
                       "level_claimed": {"category": cat, "text": text, "design_ref": "DESIGN.md " + ref}, "level_note": note, "technique": tech or TECH})
    m = {"version": 1,
         "setup_cmd": "./setup.sh",
         "hooks": {"guard": "LIBECONF_VERIF", "enable": "no source hooks: harness translation units #include the library .c files (static functions/state visible); nothing in /repo is guarded",
                   "baseline_off_cmd": "cmake -G Ninja -B /repo/_build -S /repo >/dev/null && cmake --build /repo/_build >/dev/null && cmake --build /repo/_build --target check >/dev/null; ctest --test-dir /repo/_build -j8 --timeout 900",
                   "source_commits": [], "add_only": True},
         "engines": [{"name": "cbmc-harness", "path": "check", "serves_properties": [c["property_id"] for c in checks],
                      "kind_free_text": "CBMC 6.11 bounded model checking of harnesses that #include /repo/lib/*.c; runner in vlib/runner.py; environment models in env/"}],
         "checks": checks,
         "notes": "fix: commits in /repo (genuine defects found by the checks): " + "; ".join(c for c in commits if " fix:" in c),
         "not_applicable": [{"property_id": p["id"], "reason": na.get(p["id"], "check not built yet in this round (work in progress; see DESIGN.md)")} for p in props if p["id"] not in CHECKS]}
    json.dump(m, open(os.path.join(V, "MANIFEST.json"), "w"), indent=1)
main()
