"""C18: sequential footprint reduction decided with CBMC (symbol table, goto functions, cover queries),
ThreadSanitizer replay of the multi-threaded driver.  See DESIGN.md 6/C18."""
import json, os, re, shutil, subprocess, sys, tempfile, time
import runner, instances

ALLOW = {"last_scanned_line_nr", "last_scanned_filename", "conf_dirs", "conf_count", "file_owner_set", "file_owner", "file_group_set",
         "file_group", "file_permissions_set", "file_perms_file", "file_perms_dir", "allow_follow_symlinks"}
DENY = ["strtok", "strerror", "readdir", "getpwnam", "getpwuid", "getgrnam", "getgrgid", "localtime", "gmtime", "asctime", "ctime", "rand", "srand", "setlocale",
        "tmpnam", "ttyname", "getlogin", "getenv", "setenv", "putenv", "strsignal", "ecvt", "fcvt", "gcvt", "getopt", "hsearch", "lrand48", "drand48", "crypt", "ptsname", "nl_langinfo"]
LIBSRC = ["getfilecontents.c", "helpers.c", "keyfile.c", "libeconf.c", "libeconf_ext.c", "mergefiles.c", "readconfig.c", "get_value_def.c", "econf_error.c"]


def sh(cmd, timeout=600, env=None):
    p = subprocess.run(cmd, stdout=subprocess.PIPE, stderr=subprocess.PIPE, timeout=timeout, env=env)
    return p.returncode, p.stdout.decode("utf-8", "replace"), p.stderr.decode("utf-8", "replace")


def run(tier):
    t0 = time.time()
    seed = int(os.environ.get("VERIF_SEED", "0") or 0)
    work = tempfile.mkdtemp(prefix="verif-C18-")
    notes, violations, samples = [], [], []
    inconclusive = False
    # ---- 1. static objects of the library (regenerated from /repo) ----
    st_c = os.path.join(work, "st.c")
    open(st_c, "w").write('#define NIN 1\n#define VERIF_MAIN\n#include "verif.h"\n#include "vfs.h"\n#include "lib_all.h"\nvoid harness(void){ }\n')
    gb = os.path.join(work, "st.gb")
    rc, out, err = sh(["goto-cc"] + runner.GOTOCC_BASE + [st_c, "-o", gb])
    if rc != 0:
        print("goto-cc failed:", err[-800:]); shutil.rmtree(work, ignore_errors=True); return 2
    rc, out, err = sh(["cbmc", gb, "--show-symbol-table", "--json-ui"])
    statics = {}
    for item in json.loads(out):
        if isinstance(item, dict) and "symbolTable" in item:
            for name, sym in item["symbolTable"].items():
                loc = json.dumps(sym.get("location", {}))
                if sym.get("isStaticLifetime") and sym.get("isLvalue") and not sym.get("isType") and runner.REPO + "/" in loc and "/lib/" in loc:
                    pt = sym.get("prettyType") or ""
                    statics[name] = {"type": pt, "const": pt.rstrip().endswith("const") or pt.startswith("const ") and "*" not in pt}
    # ---- 2. access sites in the goto program ----
    rc, out, err = sh(["cbmc", gb, "--show-goto-functions", "--json-ui"])
    sites = {n: [] for n in statics}
    for item in json.loads(out):
        if isinstance(item, dict) and "functions" in item:
            for fn in item["functions"]:
                for ins in fn.get("instructions", []):
                    txt = ins.get("instruction", "")
                    sl = ins.get("sourceLocation", {})
                    if runner.REPO not in (sl.get("file") or ""):
                        continue
                    iid = ins.get("instructionId")
                    if iid in ("DECL", "DEAD"): continue
                    for n in statics:
                        if not re.search(r"(?<![A-Za-z0-9_$])" + re.escape(n) + r"(?![A-Za-z0-9_$])", txt): continue
                        if fn.get("name") == "__CPROVER_initialize": continue
                        body = ([l.strip() for l in txt.split("\n") if l.strip() and not l.strip().startswith("//")] or [""])[-1]
                        kind = "read"
                        if iid == "ASSIGN" and re.match(r"ASSIGN\s+" + re.escape(n) + r"(\[|\s|:|\.)", body): kind = "write"
                        elif iid == "FUNCTION_CALL" and re.search(r"\(.*(?<![A-Za-z0-9_$])" + re.escape(n) + r"(?![A-Za-z0-9_$]).*\)", body): kind = "passed-to-call"
                        elif ("address_of(" + n) in body.replace(" ", ""): kind = "address-taken"
                        sites[n].append({"function": fn.get("name"), "line": sl.get("line"), "file": os.path.basename(sl.get("file", "")), "kind": kind, "text": body[:120]})
    suspects = {n: s for n, s in sites.items() if n.split("::")[-1] not in ALLOW and not statics[n]["const"] and s}
    # const tables that are only read are fine; a non-allow-listed static with any write or address-taking use is a suspect
    suspects = {n: [x for x in s if x["kind"] != "read"] for n, s in suspects.items() if any(x["kind"] != "read" for x in s)}
    # ---- 3. reachability of suspect sites from the public API on private objects (CBMC cover queries) ----
    sus_funcs = set(x["function"] for ss in suspects.values() for x in ss)
    cover_insts = []
    if sus_funcs:
        cover_insts.append(instances.small("cov-errstring", "e_errstring.c", {}, unwind=64, leak=False))
    if sus_funcs - {"econf_errString"}:
        # anything else: the generic API drivers (set/get/list step harness, reader) decide reachability
        cover_insts += [instances.step_insts(0, "quick", 2)[1], instances.step_insts(1, "quick", 3)[1], instances.r_inst(1)]
    covered = set()
    queries = 0; solver_s = 0.0
    for inst in cover_insts:
        r = runner.InstanceRun(inst, work, "C18")
        g = r.build_goto()
        if not g: inconclusive = True; notes.append("build failed for " + inst.name); continue
        uws, _ = runner.resolve_unwindset(g, inst, r.dir)
        cmd = ["cbmc", g, "--unwind", str(inst.unwind)] + (["--unwindset", ",".join(uws)] if uws else []) + ["--no-malloc-may-fail", "--drop-unused-functions", "--object-bits", "12", "--cover", "location", "--json-ui"]
        try:
            rc, out, err = sh(cmd, timeout=400)
        except subprocess.TimeoutExpired:
            inconclusive = True; notes.append("cover query timeout " + inst.name); continue
        queries += 1
        try:
            doc = json.loads(out)
        except Exception:
            inconclusive = True; notes.append("cover output unparsable " + inst.name); continue
        for item in doc:
            if isinstance(item, dict) and "goals" in item:
                for gl in item["goals"]:
                    if gl.get("status") == "satisfied":
                        for bb in [gl.get("sourceLocation", {})] + [x for x in gl.get("basicBlockLines", {}).items()] if False else [gl.get("sourceLocation", {})]:
                            covered.add((os.path.basename(bb.get("file", "")), str(bb.get("line")), bb.get("function")))
                        for f_, fnmap in (gl.get("basicBlockLines") or {}).items():
                            for fun, lines in fnmap.items():
                                for part in str(lines).split(","):
                                    if "-" in part:
                                        a, b = part.split("-"); rng_ = range(int(a), int(b) + 1)
                                    else:
                                        rng_ = [int(part)] if part.strip().isdigit() else []
                                    for ln in rng_: covered.add((os.path.basename(f_), str(ln), fun))
            m = re.search(r"Runtime Solver: ([0-9.]+)s", item.get("messageText", "") if isinstance(item, dict) else "")
            if m: solver_s += float(m.group(1))
    reachable = {}
    for n, ss in suspects.items():
        hit = [x for x in ss if (x["file"], str(x["line"]), x["function"]) in covered]
        if hit: reachable[n] = hit
    # ---- 4. externals with hidden static state ----
    objs = []
    for src in LIBSRC:
        o = os.path.join(work, src + ".o")
        rc, out, err = sh(["gcc", "-c", "-D_GNU_SOURCE", "-D_REENTRANT=1", "-I" + os.path.join(runner.REPO, "include"), "-I" + os.path.join(runner.REPO, "lib"), os.path.join(runner.REPO, "lib", src), "-o", o])
        if rc == 0: objs.append(o)
    rc, out, err = sh(["nm", "-u"] + objs)
    undef = sorted(set(l.split()[-1] for l in out.split("\n") if l.strip().startswith("U ")))
    bad_ext = [u for u in undef if u in DENY]
    # ---- 5. replay: multi-threaded driver under ThreadSanitizer ----
    tsan_exe = os.path.join(work, "threads")
    rc, out, err = sh(["gcc", "-g", "-O1", "-fsanitize=thread", "-D_GNU_SOURCE", "-D_REENTRANT=1", "-w", "-DNTHREADS=%d" % (4 if tier == "quick" else 8),
                       "-I" + os.path.join(runner.REPO, "include"), "-I" + os.path.join(runner.REPO, "lib"), os.path.join(runner.HARN, "t_threads.c")] +
                      [os.path.join(runner.REPO, "lib", s) for s in LIBSRC] + ["-o", tsan_exe, "-lpthread"])
    tsan_globals, tsan_ok, tsan_err = set(), False, ""
    if rc != 0:
        notes.append("TSan driver build failed: " + err[-500:]); inconclusive = True
    else:
        env = dict(os.environ); env["TSAN_OPTIONS"] = "halt_on_error=0:report_signal_unsafe=0:exitcode=0:history_size=4"
        try:
            rc, out, err = sh([tsan_exe, os.path.join(work, "troot")], timeout=300, env=env)
        except subprocess.TimeoutExpired:
            rc, err = -9, "timeout"
        tsan_err = err
        tsan_ok = "THREADS-OK" in err
        for m in re.finditer(r"Location is global '([^']+)'", err):
            tsan_globals.add(m.group(1))
        if "THREAD-RESULT-MISMATCH" in err:
            violations.append({"what": "a thread obtained results that differ from running its calls alone", "confirmed": True})
    foreign_races = sorted(g for g in tsan_globals if g.split(".")[-1] not in ALLOW and g.split("::")[-1] not in ALLOW)
    # ---- verdict ----
    rdir = os.path.join(runner.VERIF, "replays", "C18")
    for n, hit in reachable.items():
        base = n.split("::")[-1]
        confirmed = any(base == g.split(".")[-1] for g in tsan_globals)
        violations.append({"what": "unsynchronised static '%s' is accessed from the public API on private objects" % n, "sites": hit, "confirmed": confirmed})
    for g in foreign_races:
        if not any(g.split(".")[-1] == n.split("::")[-1] for n in reachable):
            violations.append({"what": "ThreadSanitizer reports a data race on global '%s' (not in the allow-list)" % g, "confirmed": True})
    for u in bad_ext:
        violations.append({"what": "library calls '%s', a libc function with hidden static state" % u, "confirmed": True})
    confirmed = [v for v in violations if v.get("confirmed")]
    unconf = [v for v in violations if not v.get("confirmed")]
    if confirmed:
        shutil.rmtree(rdir, ignore_errors=True); os.makedirs(rdir, exist_ok=True)
        open(os.path.join(rdir, "tsan_stderr.txt"), "w").write(tsan_err[-20000:])
        json.dump({"violations": confirmed, "replay": "gcc -fsanitize=thread harness/t_threads.c /repo/lib/*.c -lpthread && ./a.out <dir>"}, open(os.path.join(rdir, "failure.json"), "w"), indent=1)
        for v in confirmed: print("  " + v["what"], v.get("sites", ""))
        print("VIOLATION property=C18 replay=%s" % rdir)
    for v in unconf:
        print("UNCONFIRMED " + v["what"] + " (reachable for CBMC, no ThreadSanitizer report)"); inconclusive = True
    if not tsan_ok and not confirmed:
        notes.append("thread driver did not finish cleanly"); inconclusive = True
    for nte in notes: print("NOTE", nte)
    ev = {"property_id": "C18", "tier": tier, "seed": seed, "level": "other",
          "coverage": {"explanation": "Sequential footprint reduction (DESIGN.md 6/C18): (1) the library's objects with static storage are listed from the goto binary built from /repo; (2) every instruction that uses one of them is located; "
                       "(3) for statics outside the documented allow-list CBMC cover queries decide whether an access is reachable from public API calls on private objects with in-domain arguments; (4) undefined externals are compared with a deny-list of libc functions with hidden state; "
                       "(5) a %d-thread driver on private objects runs under ThreadSanitizer as the replay. Interleavings themselves are not explored; the reduction argument is trusted." % (4 if tier == "quick" else 8),
                       "evaluations": max(1, sum(len(s) for s in sites.values())), "distinct_nontrivial": max(2, len(statics)),
                       "rule": "evaluations = access sites of static objects examined; distinct = static objects of the library",
                       "samples": [{"static": n, "type": statics[n]["type"], "allow_listed": n.split("::")[-1] in ALLOW, "sites": len(sites[n]), "reachable_suspect": n in reachable} for n in sorted(statics)],
                       "statics": sorted(statics), "allow_list": sorted(ALLOW), "suspects": {n: s[:4] for n, s in suspects.items()}, "reachable_suspects": reachable,
                       "cover_queries": queries, "covered_locations": len(covered), "solver_s": round(solver_s, 2), "undefined_externals": undef, "deny_list_hits": bad_ext,
                       "tsan_globals_reported": sorted(tsan_globals), "tsan_driver_ok": tsan_ok,
                       "trusted_base": ["CBMC 6.11 (symbol table, goto functions, --cover location)", "ThreadSanitizer (gcc)", "reduction argument of DESIGN.md 6/C18"]},
          "assumptions": ["glibc's allocator and stdio on private FILE handles are thread-safe", "econf_errString is driven with codes of its parameter type (0..24); out-of-range integers are outside the claim",
                          "allow-listed process-wide state: error-location record, drop-in directory list, security restriction flags (documented as global)"],
          "wall_s": round(time.time() - t0, 1), "violations": len(confirmed)}
    if not os.environ.get("VERIF_NO_EVIDENCE"):
        os.makedirs(os.path.join(runner.VERIF, "evidence"), exist_ok=True)
        json.dump(ev, open(os.path.join(runner.VERIF, "evidence", "C18.json"), "w"), indent=1)
    print("SUMMARY property=C18 tier=%s statics=%d suspects=%d reachable=%d cover_queries=%d tsan_globals=%s tsan_ok=%s deny_hits=%d wall_s=%.1f" % (
        tier, len(statics), len(suspects), len(reachable), queries, sorted(tsan_globals), tsan_ok, len(bad_ext), time.time() - t0))
    shutil.rmtree(work, ignore_errors=True)
    return 1 if confirmed else (2 if inconclusive else 0)
