/* Native replay of the scaled-buffer harnesses (C14): the same BUFSIZ / PATH_MAX scaling as in the
 * CBMC build, nothing else (the real libc and allocator are used). */
#ifndef VERIF_SCALE_NATIVE_H
#define VERIF_SCALE_NATIVE_H
#include <stdio.h>
#include <limits.h>
#ifdef V_BUFSIZ
#undef BUFSIZ
#define BUFSIZ V_BUFSIZ
#endif
#ifdef V_PATH_MAX_NATIVE
#undef PATH_MAX
#define PATH_MAX V_PATH_MAX_NATIVE
#endif
#endif
