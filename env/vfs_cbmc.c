/* CBMC model of the file-system / stdio / dirent functions the library uses. */
#define _GNU_SOURCE
#include <stdio.h>
#include <stdlib.h>
#include <string.h>
#include <stdarg.h>
#include <dirent.h>
#include <sys/stat.h>
#include <errno.h>
#include "vfs.h"

struct vnode vfs[VFS_MAXNODES];
int vfs_n = 0;
int vfs_open_count = 0;
unsigned char vfs_ev_op[VFS_MAXEV];
signed char vfs_ev_node[VFS_MAXEV];
int vfs_ev_n = 0;
char vfs_out[VFS_OUTCAP + 1];
size_t vfs_out_n = 0;

struct vhandle { int node; size_t pos; int open; int writing; int line; };
static struct vhandle verif_stdout_obj, verif_stderr_obj;
FILE *stdout = (FILE *)&verif_stdout_obj;
FILE *stderr = (FILE *)&verif_stderr_obj;

extern size_t verif_vformat(char *out, size_t cap, const char *fmt, va_list ap);

void vfs_ev(int op, int node) {
  __CPROVER_assert(vfs_ev_n < VFS_MAXEV, "bound: event log capacity");
  __CPROVER_assume(vfs_ev_n < VFS_MAXEV);
  vfs_ev_op[vfs_ev_n] = (unsigned char)op; vfs_ev_node[vfs_ev_n] = (signed char)node; vfs_ev_n++;
}

int vfs_add(const char *path, int parent, unsigned kind) {
  __CPROVER_assert(vfs_n < VFS_MAXNODES, "bound: vfs nodes");
  int i = vfs_n++;
  const char *nm = strrchr(path, '/');
  vfs[i].path = path; vfs[i].name = nm ? nm + 1 : path; vfs[i].parent = parent; vfs[i].kind = (unsigned char)kind;
  vfs[i].uid = 0; vfs[i].gid = 0; vfs[i].len = 0;
  return i;
}
void vfs_set(int node, const char *data, size_t len) {
  __CPROVER_assert(len <= VFS_CONTENT, "bound: vfs content");
  for (size_t k = 0; k < VFS_CONTENT; k++) vfs[node].data[k] = k < len ? data[k] : 0;
  vfs[node].len = len;
}
void vfs_set_lines(int node, const short *ends, int n) { vfs[node].line_ends = ends; vfs[node].n_lines = n; }
void vfs_own(int node, uid_t uid, gid_t gid) { vfs[node].uid = uid; vfs[node].gid = gid; }
void vfs_commit(void) {}
const char *VP(const char *path) { return path; }

int vfs_slot(const char *path) {
  for (int i = 0; i < vfs_n; i++) if (strcmp(vfs[i].path, path) == 0) return i;
  return -1;
}
static int vfs_ancestors_ok(int i) {
  int p = vfs[i].parent;
  while (p >= 0) { if (vfs[p].kind != VK_DIR) return 0; p = vfs[p].parent; }
  return 1;
}
#ifndef VFS_CWD
#define VFS_CWD "/w"
#endif
int vfs_lookup(const char *path) {
  char abs_[64];
  if (path[0] != '/') {
    /* relative names are resolved against the concrete working directory VFS_CWD */
    size_t o = 0;
    for (const char *c = VFS_CWD; *c; c++) abs_[o++] = *c;
    abs_[o++] = '/';
    const char *q = (path[0] == '.' && path[1] == '/') ? path + 2 : path;
    for (; *q; q++) { __CPROVER_assert(o < 62, "bound: path length"); abs_[o++] = *q; }
    abs_[o] = 0;
    path = abs_;
  }
  int i = vfs_slot(path);
  if (i < 0) {
    /* "<dir>/." and "<dir>/.." */
    size_t l = strlen(path);
    if (l >= 3 && path[l - 1] == '.' && (path[l - 2] == '/' || (path[l - 2] == '.' && path[l - 3] == '/'))) {
      int up = path[l - 2] == '.';
      char tmp[64];
      size_t n = l - (up ? 3 : 2);
      __CPROVER_assert(n < 63, "bound: path length");
      for (size_t k = 0; k < n; k++) tmp[k] = path[k];
      tmp[n] = 0;
      int d = vfs_slot(tmp);
      if (d < 0 || vfs[d].kind != VK_DIR || !vfs_ancestors_ok(d)) return -1;
      if (up) d = vfs[d].parent;
      return d;
    }
    return -1;
  }
  if (vfs[i].kind == VK_ABSENT || !vfs_ancestors_ok(i)) return -1;
  return i;
}
long vfs_read(int node, char *buf, size_t cap) {
  if (vfs[node].kind == VK_ABSENT) return -1;
  size_t l = vfs[node].len;
  for (size_t k = 0; k < VFS_CONTENT; k++) if (k < l && k < cap) buf[k] = vfs[node].data[k];
  return (long)l;
}

int lstat(const char *path, struct stat *sb) {
  int i = vfs_lookup(path);
  if (i < 0) { errno = ENOENT; return -1; }
  vfs_ev(EV_LSTAT, i);
  sb->st_uid = vfs[i].uid; sb->st_gid = vfs[i].gid;
  sb->st_mode = vfs[i].kind == VK_DIR ? (S_IFDIR | 0755)
              : (vfs[i].kind == VK_LINK || vfs[i].kind == VK_LINKF) ? (S_IFLNK | 0777) : (S_IFREG | 0644);
  return 0;
}
int stat(const char *path, struct stat *sb) {
  int i = vfs_lookup(path);
  if (i < 0) { errno = ENOENT; return -1; }
  sb->st_uid = vfs[i].uid; sb->st_gid = vfs[i].gid;
  sb->st_mode = vfs[i].kind == VK_DIR ? (S_IFDIR | 0755) : (S_IFREG | 0644);   /* follows links */
  return 0;
}

FILE *fopen(const char *path, const char *mode) {
  int wr = mode[0] == 'w';
  int i;
  if (wr) {
    i = vfs_slot(path);
    if (i < 0 || !vfs_ancestors_ok(i) || vfs[i].kind == VK_DIR) { errno = ENOENT; return 0; }
    vfs[i].kind = VK_FILE; vfs[i].len = 0;
  } else {
    i = vfs_lookup(path);
    if (i < 0 || vfs[i].kind == VK_DIR) { errno = ENOENT; return 0; }
    vfs_ev(EV_FOPEN, i);
  }
  struct vhandle *h = malloc(sizeof *h);
  __CPROVER_assume(h != 0);
  h->node = i; h->pos = 0; h->open = 1; h->writing = wr; h->line = 0; vfs_open_count++;
  return (FILE *)h;
}
extern const char *verif_scoped_src; extern void verif_scope_end(void);
int fclose(FILE *fp) {
  struct vhandle *h = (struct vhandle *)fp;
  verif_scope_end(); verif_scoped_src = 0;
  __CPROVER_assert(h->open == 1, "prop: fclose called on an open handle exactly once");
  h->open = 0; vfs_open_count--; free(h);
  return 0;
}

#ifndef GETLINE_CAP
#define GETLINE_CAP (VFS_CONTENT + 2)
#endif
ssize_t getline(char **lineptr, size_t *n, FILE *fp) {
  struct vhandle *h = (struct vhandle *)fp; struct vnode *f = &vfs[h->node];
  verif_scope_end();
  if (f->kind == VK_LINK) return -1;               /* link to /dev/null: empty */
  if (h->pos >= f->len) return -1;
  size_t k = 0;
  if (f->line_ends != 0) {
    /* concrete line structure supplied by the harness */
    if (h->line >= f->n_lines) return -1;
    k = (size_t)f->line_ends[h->line] - h->pos;
    h->line++;
  } else {
    while (h->pos + k < f->len) { char c = f->data[h->pos + k]; k++; if (c == '\n') break; }
  }
  if (*lineptr == 0 || *n < k + 1) {
    /* growth path (glibc reallocs to at least the needed size) */
    char *nb = malloc(GETLINE_CAP);
    __CPROVER_assume(nb != 0);
    __CPROVER_assert(k + 1 <= GETLINE_CAP, "bound: line within GETLINE_CAP");
    if (*lineptr) free(*lineptr);
    *lineptr = nb; *n = GETLINE_CAP;
  }
  for (size_t i = 0; i < k; i++) (*lineptr)[i] = f->data[h->pos + i];
  (*lineptr)[k] = 0;
  verif_scoped_src = *lineptr;
  h->pos += k;
  return (ssize_t)k;
}

static void vfs_write(FILE *fp, const char *s, size_t l) {
  if (fp == stderr) return;
  if (fp == stdout) {
    for (size_t i = 0; i < l; i++) { __CPROVER_assert(vfs_out_n < VFS_OUTCAP, "bound: stdout capture"); __CPROVER_assume(vfs_out_n < VFS_OUTCAP); vfs_out[vfs_out_n++] = s[i]; }
    return;
  }
  struct vhandle *h = (struct vhandle *)fp; struct vnode *f = &vfs[h->node];
  __CPROVER_assert(h->open == 1 && h->writing, "prop: write to a handle open for writing");
  for (size_t i = 0; i < l; i++) { __CPROVER_assert(f->len < VFS_CONTENT, "bound: written file within VFS_CONTENT"); __CPROVER_assume(f->len < VFS_CONTENT); f->data[f->len++] = s[i]; }
}
#ifndef FMTCAP
#define FMTCAP 48
#endif
int fprintf(FILE *fp, const char *fmt, ...) {
  if (fp == stderr) return 0;
  char tmp[FMTCAP];
  va_list ap; va_start(ap, fmt);
  size_t o = verif_vformat(tmp, FMTCAP, fmt, ap);
  va_end(ap);
  __CPROVER_assert(o < FMTCAP, "bound: fprintf output within FMTCAP");
  __CPROVER_assume(o < FMTCAP);
  vfs_write(fp, tmp, o);
  return (int)o;
}
int printf(const char *fmt, ...) {
  char tmp[FMTCAP];
  va_list ap; va_start(ap, fmt);
  size_t o = verif_vformat(tmp, FMTCAP, fmt, ap);
  va_end(ap);
  __CPROVER_assert(o < FMTCAP, "bound: printf output within FMTCAP");
  __CPROVER_assume(o < FMTCAP);
  vfs_write(stdout, tmp, o);
  return (int)o;
}
int fputs(const char *s, FILE *fp) { vfs_write(fp, s, strlen(s)); return 0; }
int puts(const char *s) { vfs_write(stdout, s, strlen(s)); vfs_write(stdout, "\n", 1); return 0; }
int fputc(int c, FILE *fp) { char ch = (char)c; vfs_write(fp, &ch, 1); return c; }
int putchar(int c) { char ch = (char)c; vfs_write(stdout, &ch, 1); return c; }
int fflush(FILE *fp) { (void)fp; return 0; }

int alphasort(const struct dirent **a, const struct dirent **b) { return strcmp((*a)->d_name, (*b)->d_name); }
/* numeric-aware comparison, so that substituting it for alphasort is visible */
int versionsort(const struct dirent **a, const struct dirent **b) {
  const char *x = (*a)->d_name, *y = (*b)->d_name;
  unsigned nx = 0, ny = 0; int dx = 0, dy = 0;
  while (*x >= '0' && *x <= '9') { nx = nx * 10 + (unsigned)(*x - '0'); x++; dx = 1; }
  while (*y >= '0' && *y <= '9') { ny = ny * 10 + (unsigned)(*y - '0'); y++; dy = 1; }
  if (dx && dy && nx != ny) return nx < ny ? -1 : 1;
  return strcmp((*a)->d_name, (*b)->d_name);
}

_Bool nondet_bool(void);
int scandir(const char *dirp, struct dirent ***namelist, int (*filter)(const struct dirent *),
            int (*compar)(const struct dirent **, const struct dirent **)) {
  int d = vfs_lookup(dirp);
  if (d < 0 || vfs[d].kind != VK_DIR) { errno = ENOENT; return -1; }
  struct dirent **list = malloc(sizeof(struct dirent *) * (VFS_MAXNODES + 2));
  __CPROVER_assume(list != 0);
  int cnt = 0;
  /* "." and ".." are always delivered */
  for (int s = 0; s < 2; s++) {
    struct dirent *e = malloc(sizeof(struct dirent));
    __CPROVER_assume(e != 0);
    e->d_name[0] = '.'; e->d_name[1] = s ? '.' : 0; e->d_name[2] = 0;
    if (filter && !filter(e)) { free(e); continue; }
    list[cnt++] = e;
  }
  /* directory order is unspecified: the model delivers children in reverse table order (harnesses
     register names so that neither table order nor its reverse is the byte-wise order), so that the
     caller's sort matters.  A nondeterministic order made every list slot a symbolic pointer and
     the symbolic execution of the caller's sort did not finish. */
  _Bool rev = 1;
  for (int t = 0; t < vfs_n; t++) {
    int i = rev ? vfs_n - 1 - t : t;
    if (vfs[i].parent == d && vfs[i].kind != VK_ABSENT) {
      struct dirent *e = malloc(sizeof(struct dirent));
      __CPROVER_assume(e != 0);
      size_t l = strlen(vfs[i].name);
      for (size_t k = 0; k <= l; k++) e->d_name[k] = vfs[i].name[k];
      if (filter && !filter(e)) { free(e); continue; }
      list[cnt++] = e;
    }
  }
  if (compar) {
    for (int i = 1; i < cnt; i++) {
      struct dirent *x = list[i]; int j = i - 1;
      while (j >= 0) { const struct dirent *pa = list[j], *pb = x; if (compar(&pa, &pb) <= 0) break; list[j + 1] = list[j]; j--; }
      list[j + 1] = x;
    }
  }
  *namelist = list;
  return cnt;
}

char *realpath(const char *path, char *resolved) {
  /* relative names are resolved against the concrete cwd VFS_CWD; the file must exist */
  char tmp[64];
  size_t o = 0;
  if (path[0] != '/') { const char *c = VFS_CWD; for (; *c; c++) tmp[o++] = *c; tmp[o++] = '/'; }
  if (path[0] == '.' && path[1] == '/') path += 2;
  for (; *path; path++) { __CPROVER_assert(o < 62, "bound: realpath length"); tmp[o++] = *path; }
  tmp[o] = 0;
  if (vfs_lookup(tmp) < 0) { errno = ENOENT; return 0; }
  __CPROVER_assert(resolved != 0, "bound: realpath called with a caller buffer");
  for (size_t k = 0; k <= o; k++) resolved[k] = tmp[k];   /* bounds-checked against the caller's PATH_MAX buffer */
  return resolved;
}
