/* libc environment models for CBMC builds (never compiled natively).
 * Everything here is part of the claim; see DESIGN.md section 3.
 *
 * Allocation model: strdup/strndup/asprintf return blocks of constant capacity STRCAP
 * (default) or of exact size by case split (-DALLOC_EXACT); exceeding STRCAP is a "bound:" failure.
 */
#define _GNU_SOURCE
#include <stdio.h>
#include <stdlib.h>
#include <string.h>
#include <stdarg.h>
#include <errno.h>
#include <limits.h>
#include <stdint.h>

#ifndef STRCAP
#define STRCAP 16
#endif

static int verif_errno;
int *__errno_location(void) { return &verif_errno; }

/* ---------- allocation of strings ---------- */
static char *verif_stralloc(size_t n /* bytes incl. NUL */) {
  __CPROVER_assert(n <= STRCAP, "bound: string allocation within STRCAP");
  __CPROVER_assume(n <= STRCAP);
  char *p = 0;
#ifdef ALLOC_EXACT
  for (size_t c = 1; c <= STRCAP; c++) if (n == c) p = malloc(c);
#else
  p = malloc(STRCAP);
#endif
  __CPROVER_assume(p != 0);
  return p;
}

/* GCC's __attribute__((__cleanup__)) is ignored by CBMC.  The parser's per-line copy
   `char *org_buf __cleanup__(free_buffer) = strdup(buf)` (buf = the getline buffer) is therefore
   released by the model at the point where the scope ends: the next getline call or the fclose. */
const char *verif_scoped_src;   /* set by getline: start of the buffer it filled */
char *verif_scoped_pending;     /* copy owned by the current loop-body scope */
void verif_scope_end(void) { if (verif_scoped_pending) { free(verif_scoped_pending); verif_scoped_pending = 0; } }

char *strdup(const char *s) {
#ifdef ALLOC_EXACT
  size_t n = 0;
  while (n < STRCAP && s[n]) n++;
  __CPROVER_assert(s[n] == 0, "bound: strdup length within STRCAP");
  __CPROVER_assume(s[n] == 0);
  char *p = verif_stralloc(n + 1);
  for (size_t i = 0; i < STRCAP; i++) { if (i > n) break; p[i] = s[i]; }
#else
  /* the copy loop ends on the source's NUL, so that it stops concretely whenever that byte is
     concrete even if earlier bytes are symbolic */
  char *p = verif_stralloc(1);
  size_t i = 0;
  for (; i < STRCAP; i++) { p[i] = s[i]; if (s[i] == 0) break; }
  __CPROVER_assert(i < STRCAP, "bound: strdup length within STRCAP");
  __CPROVER_assume(i < STRCAP);
#endif
  if (verif_scoped_src != 0 && s == verif_scoped_src) { verif_scope_end(); verif_scoped_pending = p; }
  return p;
}

char *strndup(const char *s, size_t m) {
#ifdef ALLOC_EXACT
  size_t n = 0;
  while (n < STRCAP && n < m && s[n]) n++;
  __CPROVER_assert(n >= m || s[n] == 0, "bound: strndup length within STRCAP");
  __CPROVER_assume(n >= m || s[n] == 0);
  char *p = verif_stralloc(n + 1);
  for (size_t i = 0; i < STRCAP; i++) { if (i >= n) break; p[i] = s[i]; }
  p[n] = 0;
#else
  char *p = verif_stralloc(1);
  size_t i = 0;
  for (; i < STRCAP - 1; i++) { if (i >= m || s[i] == 0) break; p[i] = s[i]; }
  __CPROVER_assert(i >= m || s[i] == 0, "bound: strndup length within STRCAP");
  __CPROVER_assume(i >= m || s[i] == 0);
  p[i] = 0;
#endif
  return p;
}

char *stpcpy(char *d, const char *s) {
  size_t i = 0;
  for (;; i++) { d[i] = s[i]; if (s[i] == 0) break; }
  return d + i;
}

char *strsep(char **stringp, const char *delim) {
  char *s = *stringp;
  if (s == 0) return 0;
  char *p = s;
  for (; *p; p++) {
    const char *d = delim;
    for (; *d; d++) if (*p == *d) { *p = 0; *stringp = p + 1; return s; }
  }
  *stringp = 0;
  return s;
}

char *strstr(const char *h, const char *n) {
  size_t ln = strlen(n);
  if (ln == 0) return (char *)h;
  for (; *h; h++) if (strncmp(h, n, ln) == 0) return (char *)h;
  return 0;
}

/* ---------- opaque numeric tokens ----------
 * asprintf of an integer / floating conversion produces a token instead of decimal digits:
 *   0x01, kind, [precision+'0'], 16 nibbles ('a'+nibble, most significant first), NUL
 * kind: 'i' value consumed as int, 'l' as long, 'u' as unsigned, 'L' as unsigned long, 'g' double.
 * The strto* models below give a token the result real libc gives on the decimal text of the
 * recorded value (C11 7.22.1.4 for integers, IEEE-754 round-trip theorem for %.9g / %.17g).
 */
#define TOK 1
static size_t tok_put(char *out, char kind, int prec, uint64_t bits) {
  size_t o = 0;
  out[o++] = TOK; out[o++] = kind;
  if (kind == 'g') out[o++] = (char)('0' + (prec < 0 ? 0 : prec > 40 ? 40 : prec));
  for (int k = 15; k >= 0; k--) out[o++] = (char)('a' + ((bits >> (4 * k)) & 15));
  out[o] = 0;
  return o;
}
static int tok_get(const char *s, char *kind, int *prec, uint64_t *bits, const char **end) {
  /* a token is recognised only if it is complete (ordinary text may start with the marker byte) */
  if (s[0] != TOK) return 0;
  size_t o = 1;
  char kd = s[o];
  if (kd != 'i' && kd != 'l' && kd != 'u' && kd != 'L' && kd != 'g') return 0;
  o++;
  *kind = kd;
  *prec = 0;
  if (kd == 'g') { if (s[o] < '0') return 0; *prec = s[o] - '0'; o++; }
  uint64_t b = 0;
  for (int k = 0; k < 16; k++) { char c = s[o]; if (c < 'a' || c > 'p') return 0; b = (b << 4) | (uint64_t)(c - 'a'); o++; }
  *bits = b;
  *end = s + o;
  return 1;
}
#define TOKLEN 19

/* ---------- formatted output into strings ---------- */
/* supported: literals, %%, %s, %c, %d %i %u %ld %lu %lld %llu (token), %.*g (token) */
size_t verif_vformat(char *out, size_t cap, const char *fmt, va_list ap) {
  size_t o = 0;
#define PUT(ch) do { if (o + 1 < cap) out[o] = (ch); o++; } while (0)
  for (const char *p = fmt; *p; p++) {
    if (*p != '%') { PUT(*p); continue; }
    p++;
    if (*p == '%') { PUT('%'); continue; }
    if (*p == 's') { const char *s = va_arg(ap, const char *); if (!s) s = "(null)"; for (size_t i = 0; s[i]; i++) PUT(s[i]); continue; }
    if (*p == 'c') { char c;   /* CBMC does not promote a char argument to int (cf. float below) */
      if (__CPROVER_OBJECT_SIZE(*(void **)ap) == sizeof(char)) c = va_arg(ap, char); else c = (char)va_arg(ap, int);
      PUT(c); continue; }
    char tmp[TOKLEN + 2]; size_t tl = 0;
    if (*p == 'd' || *p == 'i') { int v = va_arg(ap, int); tl = tok_put(tmp, 'i', 0, (uint64_t)(int64_t)v); }
    else if (*p == 'u') { unsigned v = va_arg(ap, unsigned); tl = tok_put(tmp, 'u', 0, (uint64_t)v); }
    else if (*p == 'l' && (p[1] == 'd' || p[1] == 'i')) { long v = va_arg(ap, long); p++; tl = tok_put(tmp, 'l', 0, (uint64_t)v); }
    else if (*p == 'l' && p[1] == 'u') { unsigned long v = va_arg(ap, unsigned long); p++; tl = tok_put(tmp, 'L', 0, (uint64_t)v); }
    else if (*p == 'l' && p[1] == 'l' && (p[2] == 'd' || p[2] == 'i')) { long long v = va_arg(ap, long long); p += 2; tl = tok_put(tmp, 'l', 0, (uint64_t)v); }
    else if (*p == 'l' && p[1] == 'l' && p[2] == 'u') { unsigned long long v = va_arg(ap, unsigned long long); p += 2; tl = tok_put(tmp, 'L', 0, (uint64_t)v); }
    else if (*p == '.' && p[1] == '*' && p[2] == 'g') { int prec = va_arg(ap, int); double d; p += 2;
      /* CBMC does not apply the default argument promotion float->double to variadic arguments */
      if (__CPROVER_OBJECT_SIZE(*(void **)ap) == sizeof(float)) { float f = va_arg(ap, float); d = (double)f; } else d = va_arg(ap, double);
      union { double d; uint64_t u; } cv; cv.d = d; tl = tok_put(tmp, 'g', prec, cv.u); }
    else { __CPROVER_assert(0, "bound: unsupported conversion in format string"); }
    for (size_t i = 0; i < tl; i++) PUT(tmp[i]);
  }
#undef PUT
  if (cap > 0) out[o < cap ? o : cap - 1] = 0;
  return o;
}

int asprintf(char **strp, const char *fmt, ...) {
  va_list ap; va_start(ap, fmt);
  char *out = malloc(STRCAP);
  __CPROVER_assume(out != 0);
  size_t o = verif_vformat(out, STRCAP, fmt, ap);
  va_end(ap);
  __CPROVER_assert(o + 1 <= STRCAP, "bound: asprintf result within STRCAP");
  __CPROVER_assume(o + 1 <= STRCAP);
#ifdef ALLOC_EXACT
  char *ex = verif_stralloc(o + 1);
  for (size_t i = 0; i < STRCAP; i++) { if (i > o) break; ex[i] = out[i]; }
  free(out); out = ex;
#endif
  *strp = out;
  return (int)o;
}

int snprintf(char *str, size_t size, const char *fmt, ...) {
  va_list ap; va_start(ap, fmt);
  size_t o = verif_vformat(str, size, fmt, ap);
  va_end(ap);
  return (int)o;
}

int sprintf(char *str, const char *fmt, ...) {
  va_list ap; va_start(ap, fmt);
  /* unbounded: writes through str, CBMC's bounds check sees an overrun of the destination */
  size_t o = verif_vformat(str, (size_t)1 << 20, fmt, ap);
  va_end(ap);
  return (int)o;
}

/* ---------- integer conversions (reference implementation of C11 7.22.1.4, base 0/8/10/16) ---------- */
static int verif_isspace(int c) { return c == ' ' || (c >= '\t' && c <= '\r'); }

/* parses magnitude into *mag with saturation flag; returns 1 if any digit consumed */
static int verif_scan(const char *s, const char **endp, int base, int *neg, uint64_t *mag, int *ovf) {
  const char *p = s;
  while (verif_isspace((unsigned char)*p)) p++;
  *neg = 0;
  if (*p == '-') { *neg = 1; p++; } else if (*p == '+') p++;
  if ((base == 0 || base == 16) && p[0] == '0' && (p[1] == 'x' || p[1] == 'X')) {
    char c = p[2];
    if ((c >= '0' && c <= '9') || (c >= 'a' && c <= 'f') || (c >= 'A' && c <= 'F')) { p += 2; base = 16; }
    else if (base == 0) base = 8;   /* "0x" without digit: parses "0" */
  } else if (base == 0) base = (p[0] == '0') ? 8 : 10;
  uint64_t acc = 0; int any = 0; *ovf = 0;
  for (;; p++) {
    int d;
    char c = *p;
    if (c >= '0' && c <= '9') d = c - '0';
    else if (c >= 'a' && c <= 'f') d = c - 'a' + 10;
    else if (c >= 'A' && c <= 'F') d = c - 'A' + 10;
    else break;
    if (d >= base) break;
    any = 1;
    if (base == 10) { if (acc > UINT64_MAX / 10 || (acc == UINT64_MAX / 10 && (uint64_t)d > UINT64_MAX % 10)) *ovf = 1; else acc = acc * 10 + (uint64_t)d; }
    else if (base == 16) { if (acc >> 60) *ovf = 1; else acc = (acc << 4) | (uint64_t)d; }
    else { if (acc >> 61) *ovf = 1; else acc = (acc << 3) | (uint64_t)d; }
  }
  *mag = acc;
  *endp = any ? p : s;
  return any;
}

static int verif_is_tok(const char *s) { char kind; int prec; uint64_t bits; const char *e; return tok_get(s, &kind, &prec, &bits, &e); }
static uint64_t verif_tok_int(const char *s, char **endptr, int is_unsigned_result, int *neg, int *ovf) {
  char kind; int prec; uint64_t bits; const char *e;
  tok_get(s, &kind, &prec, &bits, &e);
  if (endptr) *endptr = (char *)e;
  *ovf = 0;
  if (kind == 'i' || kind == 'l') { int64_t v = (int64_t)bits; if (v < 0) { *neg = 1; return (uint64_t)0 - (uint64_t)v; } *neg = 0; return (uint64_t)v; }
  *neg = 0; return bits;
}

long long strtoll(const char *s, char **endptr, int base) {
  int neg, ovf; uint64_t mag;
  if (verif_is_tok(s)) mag = verif_tok_int(s, endptr, 0, &neg, &ovf);
  else { const char *e; verif_scan(s, &e, base, &neg, &mag, &ovf); if (endptr) *endptr = (char *)e; }
  if (!neg) { if (ovf || mag > (uint64_t)LLONG_MAX) { verif_errno = ERANGE; return LLONG_MAX; } return (long long)mag; }
  if (ovf || mag > (uint64_t)LLONG_MAX + 1) { verif_errno = ERANGE; return LLONG_MIN; }
  return (long long)((uint64_t)0 - mag);
}
long strtol(const char *s, char **endptr, int base) { return (long)strtoll(s, endptr, base); }

unsigned long long strtoull(const char *s, char **endptr, int base) {
  int neg, ovf; uint64_t mag;
  if (verif_is_tok(s)) mag = verif_tok_int(s, endptr, 1, &neg, &ovf);
  else { const char *e; verif_scan(s, &e, base, &neg, &mag, &ovf); if (endptr) *endptr = (char *)e; }
  if (ovf) { verif_errno = ERANGE; return ULLONG_MAX; }
  return neg ? (uint64_t)0 - mag : mag;
}
unsigned long strtoul(const char *s, char **endptr, int base) { return (unsigned long)strtoull(s, endptr, base); }

/* ---------- floating conversions: axiomatised ---------- */
double nondet_double(void); float nondet_float(void);
static size_t verif_float_prefix(const char *s) {
  /* longest prefix matching [ws][sign](digits[.digits]|.digits)[e[sign]digits] | inf | nan ; 0 if none */
  const char *p = s;
  while (verif_isspace((unsigned char)*p)) p++;
  if (*p == '+' || *p == '-') p++;
  if ((p[0] == 'i' || p[0] == 'I') && (p[1] == 'n' || p[1] == 'N') && (p[2] == 'f' || p[2] == 'F')) return (size_t)(p + 3 - s);
  if ((p[0] == 'n' || p[0] == 'N') && (p[1] == 'a' || p[1] == 'A') && (p[2] == 'n' || p[2] == 'N')) return (size_t)(p + 3 - s);
  int digits = 0;
  while (*p >= '0' && *p <= '9') { p++; digits++; }
  if (*p == '.') { p++; while (*p >= '0' && *p <= '9') { p++; digits++; } }
  if (!digits) return 0;
  if (*p == 'e' || *p == 'E') {
    const char *q = p + 1;
    if (*q == '+' || *q == '-') q++;
    if (*q >= '0' && *q <= '9') { while (*q >= '0' && *q <= '9') q++; p = q; }
  }
  return (size_t)(p - s);
}
double strtod(const char *s, char **endptr) {
  if (verif_is_tok(s)) {
    char kind; int prec; uint64_t bits; const char *e;
    tok_get(s, &kind, &prec, &bits, &e);
    if (endptr) *endptr = (char *)e;
    if (kind == 'g') {
      union { double d; uint64_t u; } cv; cv.u = bits;
      if (cv.d != cv.d) { double r = nondet_double(); __CPROVER_assume(r != r); return r; }   /* "nan" -> some NaN */
      if (prec >= 17) {                                              /* DBL_DECIMAL_DIG round trip */
        /* glibc reports ERANGE for a result that is subnormal (underflow) although the value is exact */
        if (cv.d != 0.0 && (cv.u & 0x7ff0000000000000ull) == 0) verif_errno = ERANGE;
        return cv.d;
      }
      double r = nondet_double(); return r;                          /* too few digits: nothing known */
    }
    double r = nondet_double(); return r;
  }
  size_t n = verif_float_prefix(s);
  if (endptr) *endptr = (char *)s + n;
  if (n == 0) return 0.0;
  return nondet_double();
}
float strtof(const char *s, char **endptr) {
  if (verif_is_tok(s)) {
    char kind; int prec; uint64_t bits; const char *e;
    tok_get(s, &kind, &prec, &bits, &e);
    if (endptr) *endptr = (char *)e;
    if (kind == 'g') {
      union { double d; uint64_t u; } cv; cv.u = bits;
      if (cv.d != cv.d) { float r = nondet_float(); __CPROVER_assume(r != r); return r; }
      float f = (float)cv.d;
      if (prec >= 9 && (double)f == cv.d) {                          /* FLT_DECIMAL_DIG round trip of a float value */
        union { float f; uint32_t u; } cf; cf.f = f;
        if (f != 0.0f && (cf.u & 0x7f800000u) == 0) verif_errno = ERANGE;   /* subnormal float: glibc sets ERANGE */
        return f;
      }
      float r = nondet_float(); return r;
    }
    float r = nondet_float(); return r;
  }
  size_t n = verif_float_prefix(s);
  if (endptr) *endptr = (char *)s + n;
  if (n == 0) return 0.0f;
  return nondet_float();
}

/* ---------- path helpers (GNU variants) ---------- */
char *basename(const char *path) { char *p = strrchr(path, '/'); return p ? p + 1 : (char *)path; }
char *__xpg_basename(char *path) { char *p = strrchr(path, '/'); return p ? p + 1 : path; }
char *dirname(char *path) {
  static char dot[] = ".";
  char *p = path ? strrchr(path, '/') : 0;
  if (!p) return dot;
  if (p == path) { path[1] = 0; return path; }
  *p = 0;
  return path;
}
