/* In-memory file system for CBMC harnesses / materialiser for native replays. */
#ifndef VERIF_VFS_H
#define VERIF_VFS_H
#include <stddef.h>
#include <sys/types.h>
#ifndef VFS_MAXNODES
#define VFS_MAXNODES 16
#endif
#ifndef VFS_CONTENT
#define VFS_CONTENT 12
#endif
enum vkind { VK_ABSENT = 0, VK_FILE = 1, VK_DIR = 2, VK_LINK = 3 /* symlink to /dev/null */, VK_LINKF = 4 /* symlink to a regular file holding data */ };
struct vnode {
  const char *path;     /* full path as the library sees it */
  const char *name;     /* last component */
  int parent;           /* index of the directory node, -1 for a root */
  unsigned char kind;
  uid_t uid; gid_t gid;
  char data[VFS_CONTENT + 1];
  size_t len;
  const short *line_ends; int n_lines;
};
extern struct vnode vfs[VFS_MAXNODES];
extern int vfs_n;
/* path is harness-relative (e.g. "/u/c.conf"); returns node index */
int vfs_add(const char *path, int parent, unsigned kind);
void vfs_set(int node, const char *data, size_t len);
void vfs_own(int node, uid_t uid, gid_t gid);
/* CBMC only: concrete positions one past the end of each line (i.e. index after the '\n', or the
   content length for an unterminated last line).  Sound only if the harness constrains every
   other byte to be different from '\n'; lets getline return concrete lengths.  Native: no-op. */
void vfs_set_lines(int node, const short *ends, int n);
/* native: create everything on disk; CBMC: no-op */
void vfs_commit(void);
/* path as handed to the library (native: prefixed with the replay root) */
const char *VP(const char *path);
/* bytes currently in a node (native: read back from disk); returns length or -1 if absent */
long vfs_read(int node, char *buf, size_t cap);
extern int vfs_open_count;    /* CBMC: handles currently open */

/* event log (CBMC only) */
enum vev { EV_LSTAT = 1, EV_FOPEN = 2, EV_CALLBACK = 3, EV_GETLINE = 4 };
#define VFS_MAXEV 24
extern unsigned char vfs_ev_op[VFS_MAXEV];
extern signed char vfs_ev_node[VFS_MAXEV];
extern int vfs_ev_n;
void vfs_ev(int op, int node);
int vfs_lookup(const char *path);   /* node index of an existing path or -1 */
int vfs_slot(const char *path);     /* node index by path regardless of kind or -1 */

/* stdout capture (CBMC only; native harnesses redirect the real stdout) */
#ifndef VFS_OUTCAP
#define VFS_OUTCAP 64
#endif
extern char vfs_out[VFS_OUTCAP + 1];
extern size_t vfs_out_n;
#endif
