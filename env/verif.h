/* Dual-mode harness support.
 *
 * CBMC mode (__CPROVER__ defined): inputs are nondeterministic bytes, ASSUME/CHECK map to
 * __CPROVER_assume/__CPROVER_assert, REACH(label) is an assertion that is EXPECTED TO FAIL
 * (reachability witness; its trace is replayed natively and must pass there).
 *
 * Native mode: the same harness is compiled with gcc + ASan/UBSan against the real libc and
 * the real file system; the input vector IN[] is read from the file named by argv[1] (bytes
 * extracted from a CBMC trace).  ASSUME failing -> exit 77 (replay vector invalid),
 * CHECK failing -> message + exit 1 (reproduced), sanitizer report -> non-zero exit.
 *
 * Every harness defines NIN (number of input bytes) before including this header and
 * provides `void harness(void)`.
 */
#ifndef VERIF_H
#define VERIF_H
#include <stddef.h>
#include <stdint.h>
#include <stdbool.h>

#ifndef NIN
#error "define NIN before including verif.h"
#endif

extern unsigned char IN[];

#ifdef VERIF_CBMC
#define V_CBMC 1
unsigned char nondet_uchar(void);
#define ASSUME(c) __CPROVER_assume(c)
#define CHECK(c, msg) __CPROVER_assert((c), "prop: " msg)
#define BOUND(c, msg) do { __CPROVER_assert((c), "bound: " msg); __CPROVER_assume(c); } while (0)
#define REACH(label) __CPROVER_assert(0, "witness: " label)
#define NATIVE_ONLY(x)
#define CBMC_ONLY(x) x
#else
#define V_CBMC 0
#include <stdio.h>
#include <stdlib.h>
#define ASSUME(c) do { if (!(c)) { fprintf(stderr, "REPLAY-ASSUME-FAILED: %s (%s:%d)\n", #c, __FILE__, __LINE__); _exit(77); } } while (0)
#define CHECK(c, msg) do { if (!(c)) { fprintf(stderr, "REPLAY-CHECK-FAILED: %s [%s] (%s:%d)\n", msg, #c, __FILE__, __LINE__); fflush(0); _exit(1); } } while (0)
#define BOUND(c, msg) do { if (!(c)) { fprintf(stderr, "REPLAY-BOUND-EXCEEDED: %s (%s:%d)\n", msg, __FILE__, __LINE__); _exit(78); } } while (0)
#define REACH(label) do { fprintf(stderr, "REPLAY-REACHED: %s\n", label); } while (0)
#define NATIVE_ONLY(x) x
#define CBMC_ONLY(x)
#include <unistd.h>
#endif

/* input accessors with constant indices (keeps every array index concrete for the solver) */
#define IN8(i)  (IN[(i)])
#define INB(i)  ((bool)(IN[(i)] & 1))
#define IN32(i) ((uint32_t)IN[(i)] | ((uint32_t)IN[(i)+1] << 8) | ((uint32_t)IN[(i)+2] << 16) | ((uint32_t)IN[(i)+3] << 24))
#define IN64(i) ((uint64_t)IN32(i) | ((uint64_t)IN32((i)+4) << 32))

void harness(void);

#ifdef VERIF_MAIN
unsigned char IN[NIN + 1];
#ifdef VERIF_CBMC
int main(void) {
  for (unsigned i_ = 0; i_ < NIN; i_++) IN[i_] = nondet_uchar();
  harness();
  return 0;
}
#else
#include <string.h>
extern void vfs_native_init(const char *root);
int main(int argc, char **argv) {
  memset(IN, 0, sizeof IN);
  if (argc > 1) { FILE *f = fopen(argv[1], "rb"); if (f) { size_t n = fread(IN, 1, NIN, f); (void)n; fclose(f); } }
  vfs_native_init(argc > 2 ? argv[2] : "/tmp/verif-replay-root");
  harness();
  fprintf(stderr, "REPLAY-PASSED\n");
  return 0;
}
#endif
#endif

#endif
