/* Force-included (-include) into every translation unit of a CBMC build.
 *  - scales BUFSIZ / PATH_MAX so that buffer boundaries are reachable with short strings
 *  - replaces realloc by a typed capacity model (keeps heap objects fixed-width bit-vectors)
 * Not used for native builds.
 */
#ifndef VERIF_SCALE_H
#define VERIF_SCALE_H
#include <stdio.h>
#include <limits.h>
#include <stdlib.h>
#include <string.h>
#ifndef V_BUFSIZ
#define V_BUFSIZ 16
#endif
#ifndef V_PATH_MAX
#define V_PATH_MAX 32
#endif
#undef BUFSIZ
#define BUFSIZ V_BUFSIZ
#undef PATH_MAX
#define PATH_MAX V_PATH_MAX
#ifndef VCAP
#define VCAP 4
#endif
/* Typed capacity model of realloc: a growable array gets VCAP elements of the pointee type the
   first time it is (re)allocated; later calls grow in place.  A block that is smaller than the
   capacity (e.g. it came from calloc) is copied into a capacity block first.  Exceeding VCAP
   elements is a reported bound, not a pass. */
#define realloc(p, n) ({ __typeof__(p) verif_o = (p); size_t verif_n = (n); \
  __CPROVER_assert(verif_n <= VCAP * sizeof(*verif_o), "bound: realloc within VCAP elements"); \
  __CPROVER_assume(verif_n <= VCAP * sizeof(*verif_o)); \
  __typeof__(p) verif_r; \
  if (verif_o != 0 && __CPROVER_OBJECT_SIZE(verif_o) >= VCAP * sizeof(*verif_o)) verif_r = verif_o; \
  else { \
    verif_r = (__typeof__(p)) malloc(VCAP * sizeof(*verif_o)); \
    __CPROVER_assume(verif_r != 0); \
    if (verif_o != 0) { \
      size_t verif_c = __CPROVER_OBJECT_SIZE(verif_o) / sizeof(*verif_o); \
      for (size_t verif_i = 0; verif_i < VCAP; verif_i++) if (verif_i < verif_c) verif_r[verif_i] = verif_o[verif_i]; \
      free(verif_o); \
    } \
  } \
  verif_r; })
#endif
