/* Force-included (-include) into every translation unit of a CBMC build.
 *  - scales BUFSIZ / PATH_MAX so that buffer boundaries are reachable with short strings
 *  - replaces realloc by a typed capacity model (keeps heap objects fixed-width bit-vectors)
 * Not used for native builds.
 */
#ifndef VERIF_SCALE_H
#define VERIF_SCALE_H
#include <stdio.h>
#include <limits.h>
#include <stdlib.h>
#include <string.h>
#ifndef V_BUFSIZ
#define V_BUFSIZ 16
#endif
#ifndef V_PATH_MAX
#define V_PATH_MAX 32
#endif
#undef BUFSIZ
#define BUFSIZ V_BUFSIZ
#undef PATH_MAX
#define PATH_MAX V_PATH_MAX
#ifndef VCAP
#define VCAP 4
#endif
#ifdef CALLOC_N
/* calloc with a run-time element count gets a block of constant capacity (CALLOC_N elements), so that
   the size of the object is a constant for the symbolic execution (a symbolic object size makes
   every later pointer into the array symbolic).  Over-allocation hides overruns of such arrays by
   fewer than CALLOC_N elements; only harnesses that define CALLOC_N use this model. */
static inline void *verif_calloc_ptrs(size_t n) {
  __CPROVER_assert(n <= CALLOC_N, "bound: calloc element count within CALLOC_N");
  __CPROVER_assume(n <= CALLOC_N);
  void **p = malloc(CALLOC_N * sizeof(void *));
  __CPROVER_assume(p != 0);
  for (size_t i = 0; i < CALLOC_N; i++) p[i] = 0;
  return p;
}
static inline void *verif_calloc_bytes(size_t n) {
  __CPROVER_assert(n <= CALLOC_N * sizeof(void *), "bound: calloc size within CALLOC_N words");
  __CPROVER_assume(n <= CALLOC_N * sizeof(void *));
  char *p = malloc(CALLOC_N * sizeof(void *));
  __CPROVER_assume(p != 0);
  for (size_t i = 0; i < CALLOC_N * sizeof(void *); i++) p[i] = 0;
  return p;
}
#define calloc(n, s) (__builtin_constant_p(n) ? (calloc)((n), (s)) : ((s) == sizeof(void *) ? verif_calloc_ptrs(n) : verif_calloc_bytes((n) * (s))))
#endif
/* Typed capacity model of realloc: every (re)allocation yields a fresh block of VCAP elements of the
   pointee type; the old contents (as many elements as the old block holds) are copied and the old
   block is freed.  The result pointer is therefore always a concrete fresh object (growing in place
   when the old block "is large enough" made the result a symbolic pointer whenever the old size was
   symbolic).  Exceeding VCAP elements is a reported bound, not a pass. */
#define realloc(p, n) ({ __typeof__(p) verif_o = (p); size_t verif_n = (n); \
  __CPROVER_assert(verif_n <= VCAP * sizeof(*verif_o), "bound: realloc within VCAP elements"); \
  __CPROVER_assume(verif_n <= VCAP * sizeof(*verif_o)); \
  __typeof__(p) verif_r = (__typeof__(p)) malloc(VCAP * sizeof(*verif_o)); \
  __CPROVER_assume(verif_r != 0); \
  if (verif_o != 0) { \
    size_t verif_c = __CPROVER_OBJECT_SIZE(verif_o) / sizeof(*verif_o); \
    for (size_t verif_i = 0; verif_i < VCAP; verif_i++) if (verif_i < verif_c) verif_r[verif_i] = verif_o[verif_i]; \
    free(verif_o); \
  } \
  verif_r; })
#endif
