/* Native materialiser: the harness's virtual tree is created on the real file system under a
 * replay root, so that a replayed counterexample exercises the real library with the real libc. */
#define _GNU_SOURCE
#include <stdio.h>
#include <stdlib.h>
#include <string.h>
#include <unistd.h>
#include <errno.h>
#include <sys/stat.h>
#include <sys/types.h>
#include "vfs.h"

struct vnode vfs[VFS_MAXNODES];
int vfs_n = 0;
int vfs_open_count = 0;
unsigned char vfs_ev_op[VFS_MAXEV];
signed char vfs_ev_node[VFS_MAXEV];
int vfs_ev_n = 0;
char vfs_out[VFS_OUTCAP + 1];
size_t vfs_out_n = 0;
static char vroot[4096];

void vfs_native_init(const char *root) {
  char cmd[8300];
  snprintf(vroot, sizeof vroot, "%s", root);
  snprintf(cmd, sizeof cmd, "rm -rf '%s' && mkdir -p '%s'", vroot, vroot);
  if (system(cmd) != 0) { fprintf(stderr, "cannot create replay root %s\n", vroot); _exit(99); }
}
static char *vp_keep[4096]; static int vp_n;   /* keeps the strings reachable for LeakSanitizer */
const char *VP(const char *path) {
  size_t l = strlen(vroot) + strlen(path) + 1;
  char *p = malloc(l);
  snprintf(p, l, "%s%s", vroot, path);
  if (vp_n < 4096) vp_keep[vp_n++] = p;
  return p;
}
void vfs_ev(int op, int node) { (void)op; (void)node; }
int vfs_add(const char *path, int parent, unsigned kind) {
  int i = vfs_n++;
  const char *full = VP(path);
  const char *nm = strrchr(full, '/');
  vfs[i].path = full; vfs[i].name = nm ? nm + 1 : full; vfs[i].parent = parent; vfs[i].kind = (unsigned char)kind;
  vfs[i].uid = 0; vfs[i].gid = 0; vfs[i].len = 0;
  return i;
}
void vfs_set(int node, const char *data, size_t len) {
  if (len > VFS_CONTENT) len = VFS_CONTENT;
  memcpy(vfs[node].data, data, len); vfs[node].len = len;
}
void vfs_set_lines(int node, const short *ends, int n) { (void)node; (void)ends; (void)n; }
void vfs_own(int node, uid_t uid, gid_t gid) { vfs[node].uid = uid; vfs[node].gid = gid; }
static void put_file(const char *p, const char *d, size_t l) {
  FILE *f = fopen(p, "wb");
  if (!f) { fprintf(stderr, "materialise %s: %s\n", p, strerror(errno)); _exit(99); }
  fwrite(d, 1, l, f); fclose(f);
}
void vfs_commit(void) {
  for (int i = 0; i < vfs_n; i++) {
    /* ancestors first: nodes are added parents-first by construction */
    int p = vfs[i].parent, ok = 1;
    while (p >= 0) { if (vfs[p].kind != VK_DIR) ok = 0; p = vfs[p].parent; }
    if (!ok) continue;
    switch (vfs[i].kind) {
      case VK_DIR: mkdir(vfs[i].path, 0755); break;
      case VK_FILE: put_file(vfs[i].path, vfs[i].data, vfs[i].len); break;
      case VK_LINK: if (symlink("/dev/null", vfs[i].path)) {} break;
      case VK_LINKF: {
        char t[4200]; snprintf(t, sizeof t, "%s/.verif-target-%d", vroot, i);
        put_file(t, vfs[i].data, vfs[i].len);
        if (symlink(t, vfs[i].path)) {}
        if (chown(t, vfs[i].uid, vfs[i].gid)) {}
        break; }
      default: continue;
    }
    if (lchown(vfs[i].path, vfs[i].uid, vfs[i].gid)) {}
  }
}
int vfs_slot(const char *path) {
  for (int i = 0; i < vfs_n; i++) if (strcmp(vfs[i].path, path) == 0) return i;
  return -1;
}
int vfs_lookup(const char *path) { struct stat sb; int i = vfs_slot(path); return (i >= 0 && lstat(path, &sb) == 0) ? i : -1; }
long vfs_read(int node, char *buf, size_t cap) {
  FILE *f = fopen(vfs[node].path, "rb");
  if (!f) return -1;
  size_t n = fread(buf, 1, cap, f);
  /* report the true length even when it exceeds cap */
  char tmp[256]; size_t m; while ((m = fread(tmp, 1, sizeof tmp, f)) > 0) n += m;
  fclose(f);
  return (long)n;
}
