#include "libeconf.h"
#include "keyfile.h"
#include "helpers.h"
#include "defines.h"
#include "getfilecontents.h"
#include <string.h>
#include <assert.h>
#ifndef VFS_MAXLEN
#define VFS_MAXLEN 8
#endif
#ifndef LINES
#define LINES 1
#endif
struct vfile { const char *path; char data[VFS_MAXLEN+1]; size_t len; size_t pos; int open; };
extern struct vfile vfs_file0;
char nondet_char(void); size_t nondet_size_t(void);
int main(void){
  vfs_file0.path="/f";
  size_t L = nondet_size_t(); __CPROVER_assume(L<=VFS_MAXLEN);
  vfs_file0.len=L;
  int nl=0;
  for (int i=0;i<VFS_MAXLEN;i++) { char c=nondet_char(); vfs_file0.data[i]=c; if (c=='\n' && i+1<L) nl++; }
  __CPROVER_assume(nl<=LINES-1);
  econf_file *ef=0;
  econf_err e = econf_newKeyFile_with_options(&ef,"");
  __CPROVER_assume(e==ECONF_SUCCESS);
  e = read_file(ef,"/f","=","#");
  assert(e==ECONF_SUCCESS||e==ECONF_MISSING_BRACKET||e==ECONF_TEXT_AFTER_SECTION||e==ECONF_EMPTY_SECTION_NAME||e==ECONF_MISSING_DELIMITER||e==ECONF_NOMEM);
#ifdef WITNESS
  assert(0);
#endif
  return 0;
}
