#include <stdlib.h>
#include <string.h>
char *strndup(const char *s, size_t m) {
  size_t n = 0; while (n < m && s[n]) n++;
  char *p = malloc(n + 1);
  __CPROVER_assume(p != 0);
  for (size_t i = 0; i < n; i++) p[i] = s[i];
  p[n] = 0;
  return p;
}
