#include <stdio.h>
#include <limits.h>
#include <stdlib.h>
#include <string.h>
#undef BUFSIZ
#define BUFSIZ 16
#undef PATH_MAX
#define PATH_MAX 32
#ifndef VCAP
#define VCAP 4
#endif
/* typed capacity model of realloc: the first allocation of a growable array gets VCAP elements
   of the pointee type, later calls grow in place; exceeding VCAP elements is a reported bound. */
#define realloc(p, n) ({ __typeof__(p) verif_o = (p); size_t verif_n = (n); \
  __CPROVER_assert(verif_n <= VCAP * sizeof(*verif_o), "bound: realloc within VCAP elements"); \
  __CPROVER_assume(verif_n <= VCAP * sizeof(*verif_o)); \
  verif_o ? verif_o : (__typeof__(p)) malloc(VCAP * sizeof(*verif_o)); })
