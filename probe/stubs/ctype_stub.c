#include "ctype_tab.h"
static const unsigned short *verif_b = verif_ctype_b + 128;
static const int *verif_l = verif_ctype_lower + 128;
const unsigned short **__ctype_b_loc(void) { return &verif_b; }
const int **__ctype_tolower_loc(void) { return &verif_l; }
