#ifndef VERIF_VFS_H
#define VERIF_VFS_H
#include <stddef.h>
#include <sys/types.h>
/* in-memory file system for CBMC harnesses: fixed table of nodes with concrete paths */
#define VFS_MAXNODES 16
#define VFS_CONTENT 12
enum vkind { VK_ABSENT=0, VK_FILE=1, VK_DIR=2, VK_LINK=3 };
struct vnode { const char *path; const char *name; int parent; unsigned char kind; uid_t uid; gid_t gid;
               char data[VFS_CONTENT]; size_t len; };
extern struct vnode vfs[VFS_MAXNODES];
extern int vfs_n;
int vfs_add(const char *path, const char *name, int parent, unsigned char kind, const char *content);
extern int vfs_open_count;
#endif
