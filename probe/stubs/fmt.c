#define _GNU_SOURCE
#include <stdio.h>
#include <stdlib.h>
#include <string.h>
#include <stdarg.h>
/* minimal asprintf: supports %s %c and literals */
int asprintf(char **strp, const char *fmt, ...) {
  va_list ap; va_start(ap, fmt);
  size_t cap = 0;
  /* first pass: length */
  va_list ap2; va_copy(ap2, ap);
  for (const char *p=fmt; *p; p++) {
    if (*p=='%' && p[1]=='s') { const char *s = va_arg(ap2,const char*); cap += s? strlen(s):6; p++; }
    else if (*p=='%' && p[1]=='c') { (void)va_arg(ap2,int); cap++; p++; }
    else cap++;
  }
  va_end(ap2);
#ifdef STRCAP
  __CPROVER_assert(cap+1<=STRCAP,"bound: asprintf within STRCAP"); __CPROVER_assume(cap+1<=STRCAP);
  char *out = malloc(STRCAP);
#else
  char *out = malloc(cap+1);
#endif
  __CPROVER_assume(out!=0);
  size_t o=0;
  for (const char *p=fmt; *p; p++) {
    if (*p=='%' && p[1]=='s') { const char *s = va_arg(ap,const char*); if(!s) s="(null)"; size_t l=strlen(s); for(size_t i=0;i<l;i++) out[o++]=s[i]; p++; }
    else if (*p=='%' && p[1]=='c') { out[o++]=(char)va_arg(ap,int); p++; }
    else out[o++]=*p;
  }
  out[o]=0; va_end(ap);
  *strp = out;
  return (int)o;
}
/* snprintf: only "%s" style formats used by the library; supports %s %c literals, truncating */
int snprintf(char *str, size_t size, const char *fmt, ...) {
  va_list ap; va_start(ap, fmt);
  size_t o=0;
  for (const char *p=fmt; *p; p++) {
    if (*p=='%' && p[1]=='s') { const char *s = va_arg(ap,const char*); if(!s) s="(null)"; for(size_t i=0;s[i];i++){ if (o+1<size) str[o]=s[i]; o++; } p++; }
    else if (*p=='%' && p[1]=='c') { char c=(char)va_arg(ap,int); if (o+1<size) str[o]=c; o++; p++; }
    else { if (o+1<size) str[o]=*p; o++; }
  }
  if (size>0) str[o<size?o:size-1]=0;
  va_end(ap);
  return (int)o;
}
