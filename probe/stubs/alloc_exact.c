/* (b) exact-size allocation models via case split: constant-size objects */
#define _GNU_SOURCE
#include <stdlib.h>
#include <string.h>
#ifndef STRCAP
#define STRCAP 16
#endif
static char *alloc_exact(size_t n) {
  __CPROVER_assert(n <= STRCAP, "bound: allocation within STRCAP");
  __CPROVER_assume(n <= STRCAP);
  char *p = 0;
  for (size_t c = 1; c <= STRCAP; c++) if (n == c) p = malloc(c);
  __CPROVER_assume(p != 0);
  return p;
}
char *strdup(const char *s) {
  size_t n = strlen(s);
  char *p = alloc_exact(n + 1);
  for (size_t i = 0; i <= n; i++) p[i] = s[i];
  return p;
}
char *strndup(const char *s, size_t m) {
  size_t n = 0; while (n < m && s[n]) n++;
  char *p = alloc_exact(n + 1);
  for (size_t i = 0; i < n; i++) p[i] = s[i];
  p[n] = 0;
  return p;
}
