/* capacity model of realloc: first allocation gets constant capacity, later calls grow in place */
#include <stdlib.h>
#ifndef RCAP
#define RCAP 512
#endif
void *realloc(void *p, size_t n) {
  __CPROVER_assert(n <= RCAP, "bound: realloc size within RCAP");
  __CPROVER_assume(n <= RCAP);
  if (p == 0) { void *q = malloc(RCAP); __CPROVER_assume(q != 0); return q; }
  return p;
}
