/* contract stub of read_file_with_callback (getfilecontents.c is NOT linked): */
#define _GNU_SOURCE
#include "libeconf.h"
#include "keyfile.h"
#include "helpers.h"
#include <string.h>
#include <sys/stat.h>
#include "vfs.h"
bool file_owner_set, file_group_set, file_permissions_set, allow_follow_symlinks = true;
uid_t file_owner; gid_t file_group; mode_t file_perms_file, file_perms_dir;
int rd_log[VFS_MAXNODES]; int rd_nlog = 0;
unsigned char rd_fail[VFS_MAXNODES];   /* 0 ok, else econf_err to return */
extern int vfs_lookup(const char *path);
econf_err read_file_with_callback(econf_file **key_file, const char *file_name, const char *delim, const char *comment,
                                  bool (*callback)(const char *, const void *), const void *callback_data) {
  (void)delim; (void)comment; (void)callback; (void)callback_data;
  int i = vfs_lookup(file_name);
  if (i < 0 || vfs[i].kind == VK_DIR) return ECONF_NOFILE;
  __CPROVER_assert(rd_nlog < VFS_MAXNODES, "bound: consulted files");
  rd_log[rd_nlog++] = i;
  if (rd_fail[i] == ECONF_PARSING_CALLBACK_FAILED) return ECONF_PARSING_CALLBACK_FAILED; /* early: object untouched */
  if (rd_fail[i]) { econf_freeFile(*key_file); *key_file = NULL; return (econf_err)rd_fail[i]; } /* parse error: freed+NULL */
  (*key_file)->path = strdup(file_name);
  (*key_file)->delimiter = '='; (*key_file)->comment = '#';
  return ECONF_SUCCESS;
}
void last_scanned_file(char **filename, uint64_t *line_nr) { *filename = 0; *line_nr = 0; }
