#include <stdio.h>
#include <limits.h>
#include <stdlib.h>
#undef BUFSIZ
#define BUFSIZ 16
#undef PATH_MAX
#define PATH_MAX 32
