/* libc environment stubs for CBMC */
#define _GNU_SOURCE
#include <stdio.h>
#include <stdlib.h>
#include <string.h>
#include <stdarg.h>
#include <sys/stat.h>
#include <errno.h>

/* ---------- in-memory file system: one file ---------- */
#ifndef VFS_MAXLEN
#define VFS_MAXLEN 8
#endif
struct vfile { const char *path; char data[VFS_MAXLEN+1]; size_t len; size_t pos; int open; };
struct vfile vfs_file0;

FILE *fopen(const char *path, const char *mode) {
  (void)mode;
  if (vfs_file0.path == 0) return 0;
  vfs_file0.pos = 0; vfs_file0.open = 1;
  return (FILE *)&vfs_file0;
}
int fclose(FILE *fp) { struct vfile *f=(struct vfile*)fp; __CPROVER_assert(f->open==1,"fclose of open file"); f->open=0; return 0; }

ssize_t getline(char **lineptr, size_t *n, FILE *fp) {
  struct vfile *f=(struct vfile*)fp;
  if (f->pos >= f->len) return -1;
  size_t k = 0;
  while (f->pos + k < f->len) { char c = f->data[f->pos + k]; k++; if (c=='\n') break; }
#ifdef GETLINE_GROW
  if (*lineptr == 0 || *n < k+1) {
    char *nb = realloc(*lineptr, k+1);
    __CPROVER_assume(nb != 0);
    *lineptr = nb; *n = k+1;
  }
#else
  __CPROVER_assert(*lineptr != 0 && *n >= k+1, "bound: line fits initial getline buffer");
  __CPROVER_assume(*lineptr != 0 && *n >= k+1);
#endif
  for (size_t i=0;i<k;i++) (*lineptr)[i] = f->data[f->pos+i];
  (*lineptr)[k] = 0;
  f->pos += k;
  return (ssize_t)k;
}

/* minimal asprintf: supports %s %c and literals */
int asprintf(char **strp, const char *fmt, ...) {
  va_list ap; va_start(ap, fmt);
  size_t cap = 0;
  /* first pass: length */
  va_list ap2; va_copy(ap2, ap);
  for (const char *p=fmt; *p; p++) {
    if (*p=='%' && p[1]=='s') { const char *s = va_arg(ap2,const char*); cap += s? strlen(s):6; p++; }
    else if (*p=='%' && p[1]=='c') { (void)va_arg(ap2,int); cap++; p++; }
    else cap++;
  }
  va_end(ap2);
#ifdef STRCAP
  __CPROVER_assert(cap+1<=STRCAP,"bound: asprintf within STRCAP"); __CPROVER_assume(cap+1<=STRCAP);
  char *out = malloc(STRCAP);
#else
  char *out = malloc(cap+1);
#endif
  __CPROVER_assume(out!=0);
  size_t o=0;
  for (const char *p=fmt; *p; p++) {
    if (*p=='%' && p[1]=='s') { const char *s = va_arg(ap,const char*); if(!s) s="(null)"; size_t l=strlen(s); for(size_t i=0;i<l;i++) out[o++]=s[i]; p++; }
    else if (*p=='%' && p[1]=='c') { out[o++]=(char)va_arg(ap,int); p++; }
    else out[o++]=*p;
  }
  out[o]=0; va_end(ap);
  *strp = out;
  return (int)o;
}
/* snprintf: only "%s" style formats used by the library; supports %s %c literals, truncating */
int snprintf(char *str, size_t size, const char *fmt, ...) {
  va_list ap; va_start(ap, fmt);
  size_t o=0;
  for (const char *p=fmt; *p; p++) {
    if (*p=='%' && p[1]=='s') { const char *s = va_arg(ap,const char*); if(!s) s="(null)"; for(size_t i=0;s[i];i++){ if (o+1<size) str[o]=s[i]; o++; } p++; }
    else if (*p=='%' && p[1]=='c') { char c=(char)va_arg(ap,int); if (o+1<size) str[o]=c; o++; p++; }
    else { if (o+1<size) str[o]=*p; o++; }
  }
  if (size>0) str[o<size?o:size-1]=0;
  va_end(ap);
  return (int)o;
}
