/* (c) fixed-capacity allocation models: constant-size objects, bound asserted */
#define _GNU_SOURCE
#include <stdlib.h>
#include <string.h>
#ifndef STRCAP
#define STRCAP 16
#endif
char *strdup(const char *s) {
  size_t n = strlen(s);
  __CPROVER_assert(n + 1 <= STRCAP, "bound: strdup length within STRCAP");
  __CPROVER_assume(n + 1 <= STRCAP);
  char *p = malloc(STRCAP);
  __CPROVER_assume(p != 0);
  for (size_t i = 0; i < STRCAP; i++) { p[i] = s[i]; if (s[i] == 0) break; }
  return p;
}
char *strndup(const char *s, size_t m) {
  char *p = malloc(STRCAP);
  __CPROVER_assume(p != 0);
  size_t i = 0;
  for (; i < STRCAP - 1 && i < m && s[i]; i++) p[i] = s[i];
  __CPROVER_assert(i >= m || s[i] == 0, "bound: strndup length within STRCAP");
  p[i] = 0;
  return p;
}
