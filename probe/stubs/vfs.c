#define _GNU_SOURCE
#include <stdio.h>
#include <stdlib.h>
#include <string.h>
#include <dirent.h>
#include <sys/stat.h>
#include <errno.h>
#include "vfs.h"
struct vnode vfs[VFS_MAXNODES];
int vfs_n = 0;
int vfs_open_count = 0;
struct vhandle { int node; size_t pos; int open; };
int vfs_add(const char *path, const char *name, int parent, unsigned char kind, const char *content) {
  int i = vfs_n++;
  vfs[i].path = path; vfs[i].name = name; vfs[i].parent = parent; vfs[i].kind = kind;
  vfs[i].uid = 0; vfs[i].gid = 0; vfs[i].len = 0;
  if (content) { size_t l = strlen(content); for (size_t k=0;k<l;k++) vfs[i].data[k]=content[k]; vfs[i].len=l; }
  return i;
}
int vfs_lookup(const char *path);
static int vfs_find(const char *path) { return vfs_lookup(path); }
int vfs_lookup(const char *path) {
  for (int i = 0; i < vfs_n; i++)
    if (vfs[i].kind != VK_ABSENT && strcmp(vfs[i].path, path) == 0) {
      /* all ancestors must exist */
      int p = vfs[i].parent, ok = 1;
      while (p >= 0) { if (vfs[p].kind != VK_DIR) ok = 0; p = vfs[p].parent; }
      if (ok) return i;
    }
  return -1;
}
int lstat(const char *path, struct stat *sb) {
  int i = vfs_find(path);
  if (i < 0) { errno = ENOENT; return -1; }
  sb->st_uid = vfs[i].uid; sb->st_gid = vfs[i].gid;
  sb->st_mode = vfs[i].kind == VK_DIR ? (S_IFDIR|0755) : vfs[i].kind == VK_LINK ? (S_IFLNK|0777) : (S_IFREG|0644);
  return 0;
}
int stat(const char *path, struct stat *sb) { return lstat(path, sb); }
FILE *fopen(const char *path, const char *mode) {
  (void)mode;
  int i = vfs_find(path);
  if (i < 0 || vfs[i].kind == VK_DIR) { errno = ENOENT; return 0; }
  struct vhandle *h = malloc(sizeof *h);
  __CPROVER_assume(h != 0);
  h->node = i; h->pos = 0; h->open = 1; vfs_open_count++;
  return (FILE *)h;
}
int fclose(FILE *fp) { struct vhandle *h=(struct vhandle*)fp; __CPROVER_assert(h->open==1,"fclose of open file"); h->open=0; vfs_open_count--; free(h); return 0; }
ssize_t getline(char **lineptr, size_t *n, FILE *fp) {
  struct vhandle *h=(struct vhandle*)fp; struct vnode *f=&vfs[h->node];
  if (f->kind == VK_LINK) return -1;               /* link to /dev/null: empty */
  if (h->pos >= f->len) return -1;
  size_t k = 0;
  while (h->pos + k < f->len) { char c = f->data[h->pos + k]; k++; if (c=='\n') break; }
  __CPROVER_assert(*lineptr != 0 && *n >= k+1, "bound: line fits initial getline buffer");
  __CPROVER_assume(*lineptr != 0 && *n >= k+1);
  for (size_t i=0;i<k;i++) (*lineptr)[i] = f->data[h->pos+i];
  (*lineptr)[k] = 0;
  h->pos += k;
  return (ssize_t)k;
}
int alphasort(const struct dirent **a, const struct dirent **b) { return strcmp((*a)->d_name, (*b)->d_name); }
int scandir(const char *dirp, struct dirent ***namelist, int (*filter)(const struct dirent *),
            int (*compar)(const struct dirent **, const struct dirent **)) {
  int d = vfs_find(dirp);
  if (d < 0 || vfs[d].kind != VK_DIR) { errno = ENOENT; return -1; }
  struct dirent **list = malloc(sizeof(struct dirent *) * VFS_MAXNODES);
  __CPROVER_assume(list != 0);
  int cnt = 0;
  /* directory order is unspecified: present children in reverse table order so that sorting matters */
  for (int i = vfs_n - 1; i >= 0; i--) {
    if (vfs[i].parent == d && vfs[i].kind != VK_ABSENT) {
      struct dirent *e = malloc(sizeof(struct dirent));
      __CPROVER_assume(e != 0);
      size_t l = strlen(vfs[i].name);
      for (size_t k = 0; k <= l; k++) e->d_name[k] = vfs[i].name[k];
      if (filter && !filter(e)) { free(e); continue; }
      list[cnt++] = e;
    }
  }
  if (compar) {
    for (int i = 1; i < cnt; i++) {
      struct dirent *x = list[i]; int j = i - 1;
      while (j >= 0) { const struct dirent *pa = list[j], *pb = x; if (compar(&pa, &pb) <= 0) break; list[j+1] = list[j]; j--; }
      list[j+1] = x;
    }
  }
  *namelist = list;
  return cnt;
}
char *realpath(const char *path, char *resolved) { (void)path; (void)resolved; __CPROVER_assert(0, "realpath not expected: harness uses absolute paths"); return 0; }
char *basename(char *path) { char *p = strrchr(path, '/'); return p ? p + 1 : path; }
char *__xpg_basename(char *path) { char *p = strrchr(path, '/'); return p ? p + 1 : path; }
