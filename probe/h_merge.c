#include "libeconf.h"
#include "keyfile.h"
#include "helpers.h"
#include "defines.h"
#include "mergefiles.h"
#include <string.h>
#include <assert.h>
#ifndef N_BASE
#define N_BASE 3
#endif
#ifndef N_OVER
#define N_OVER 3
#endif
unsigned char nondet_uchar(void); size_t nondet_size_t(void);
static const char *GN[3] = { "_none_", "A", "B" };
static const char *KN[2] = { "x", "y" };
struct ent { unsigned char g, k; };
static econf_file *build(struct ent *e, size_t n, char tag) {
  econf_file *f = calloc(1, sizeof *f);
  __CPROVER_assume(f != 0);
  f->delimiter='='; f->comment='#';
  if (n) { f->file_entry = malloc(n * sizeof(struct file_entry)); __CPROVER_assume(f->file_entry!=0); }
  f->length = f->alloc_length = n;
  for (size_t i = 0; i < n; i++) {
    f->file_entry[i].group = setGroupList(f, GN[e[i].g]);
    f->file_entry[i].key = strdup(KN[e[i].k]);
    char v[3] = { tag, (char)('0'+i), 0 };
    f->file_entry[i].value = strdup(v);
    f->file_entry[i].comment_before_key = 0;
    f->file_entry[i].comment_after_value = 0;
    f->file_entry[i].line_number = i+1;
    f->file_entry[i].quotes = 0;
  }
  return f;
}
int main(void) {
  struct ent b[N_BASE+1], o[N_OVER+1];
  size_t nb = N_BASE, no = N_OVER;
  for (int i=0;i<N_BASE;i++){ b[i].g=nondet_uchar(); b[i].k=nondet_uchar(); __CPROVER_assume(b[i].g<3 && b[i].k<2);}
  for (int i=0;i<N_OVER;i++){ o[i].g=nondet_uchar(); o[i].k=nondet_uchar(); __CPROVER_assume(o[i].g<3 && o[i].k<2);}
#ifdef ASSUME_NONEMPTY_BASE
  __CPROVER_assume(nb>0);
#endif
  econf_file *base = build(b, nb, 'b'), *over = build(o, no, 'o'), *m = 0;
  econf_err e = econf_mergeFiles(&m, base, over);
  assert(e == ECONF_SUCCESS);
  /* every (g,k) of override visible with override's first value */
  for (size_t i=0;i<no;i++) {
    char *val=0; int first=1;
    for (size_t j=0;j<i;j++) if (o[j].g==o[i].g && o[j].k==o[i].k) first=0;
    if (!first) continue;
    econf_err r = econf_getStringValue(m, o[i].g? GN[o[i].g]:0, KN[o[i].k], &val);
    assert(r==ECONF_SUCCESS);
    assert(val[0]=='o' && val[1]==(char)('0'+i));
  }
  return 0;
}
