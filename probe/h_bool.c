#include "libeconf.h"
#include "keyfile.h"
#include "helpers.h"
#include "defines.h"
#include <string.h>
#include <assert.h>
char nondet_char(void);
#ifndef N
#define N 4
#endif
int main(void){
  struct file_entry fe;
  char buf[N+1];
  for (int i=0;i<N;i++) buf[i]=nondet_char();
  buf[N]=0;
  econf_file kf; memset(&kf,0,sizeof kf);
  fe.value = buf; fe.key="k"; fe.group="_none_";
  kf.file_entry=&fe; kf.length=1; kf.alloc_length=1;
  bool r;
  char orig[N+1]; memcpy(orig,buf,N+1);
  econf_err e = getBoolValueNum(kf,0,&r);
  /* spec */
  size_t len=strlen(orig);
  char lc[N+1]; for(int i=0;i<=N;i++){char c=orig[i]; lc[i]=(c>='A'&&c<='Z')?c+32:c;}
  int t = !strcmp(lc,"1")||!strcmp(lc,"yes")||!strcmp(lc,"true");
  int f = !strcmp(lc,"0")||!strcmp(lc,"no")||!strcmp(lc,"false")||len==0;
  if (t) assert(e==ECONF_SUCCESS && r==1);
  else if (f) assert(e==ECONF_SUCCESS && r==0);
  else assert(e!=ECONF_SUCCESS);
  assert(memcmp(orig,buf,N+1)==0);
  return 0;
}
