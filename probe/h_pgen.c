/* P-gen probe: structured conventional file, delim "=", comment "#", oracle by construction */
#include "libeconf.h"
#include "keyfile.h"
#include "helpers.h"
#include "defines.h"
#include "getfilecontents.h"
#include <string.h>
#include <assert.h>
#ifndef VFS_MAXLEN
#define VFS_MAXLEN 24
#endif
#ifndef NLINES
#define NLINES 2
#endif
struct vfile { const char *path; char data[VFS_MAXLEN+1]; size_t len; size_t pos; int open; };
extern struct vfile vfs_file0;
unsigned char nondet_uchar(void); _Bool nondet_bool(void); char nondet_char(void);
static size_t W;                       /* write position */
static void put(char c) { __CPROVER_assert(W < VFS_MAXLEN, "bound: generated file fits"); vfs_file0.data[W++] = c; }
static void blanks(void) { if (nondet_bool()) put(nondet_bool() ? ' ' : '\t'); }
static char letter(void) { char c = nondet_char(); __CPROVER_assume(c=='a'||c=='b'||c=='Z'||c=='7'||c=='.'||c=='-'); return c; }
struct exp { char sec[3]; char key[3]; char val[4]; int hasval; };
static struct exp E[NLINES]; static int NE = 0;
static char cursec[3];
int main(void) {
  vfs_file0.path = "/f";
  for (int l = 0; l < NLINES; l++) {
    unsigned char kind = nondet_uchar(); __CPROVER_assume(kind < 4);
    if (kind == 0) { blanks(); put('\n'); }                                   /* blank */
    else if (kind == 1) { blanks(); put('#'); unsigned char n = nondet_uchar(); __CPROVER_assume(n <= 2);
                          for (int i = 0; i < 2; i++) if (i < n) { char c = nondet_char(); __CPROVER_assume(c != '\n' && c != 0 && c != '#'); put(c); }
                          put('\n'); }                                        /* comment without 2nd '#': known defect excluded */
    else if (kind == 2) { blanks(); put('['); char s = letter(); put(s); cursec[0] = s; cursec[1] = 0; put(']'); blanks(); put('\n'); }
    else { blanks(); char k = letter(); put(k); blanks(); put('='); blanks();
           unsigned char n = nondet_uchar(); __CPROVER_assume(n <= 2); _Bool q = nondet_bool();
           struct exp *e = &E[NE++]; strcpy(e->sec, cursec); e->key[0] = k; e->key[1] = 0; e->hasval = 1;
           if (q) put('"');
           int vi = 0;
           for (int i = 0; i < 2; i++) if (i < n) { char c = letter(); put(c); e->val[vi++] = c; }
           e->val[vi] = 0;
           if (q) put('"');
           blanks(); put('\n'); }
  }
  vfs_file0.len = W;
  econf_file *ef = 0;
  econf_err r = econf_newKeyFile_with_options(&ef, "");
  __CPROVER_assume(r == ECONF_SUCCESS);
  r = read_file(ef, "/f", "=", "#");
  assert(r == ECONF_SUCCESS);
  assert(ef->length == (size_t)NE);
  for (int i = 0; i < NLINES; i++) if (i < NE) {
    assert(strcmp(ef->file_entry[i].key, E[i].key) == 0);
    assert(strcmp(ef->file_entry[i].group, E[i].sec[0] ? E[i].sec : "_none_") == 0);
    assert(ef->file_entry[i].value != 0 && strcmp(ef->file_entry[i].value, E[i].val) == 0);
  }
#ifdef WITNESS
  assert(0);
#endif
  return 0;
}
