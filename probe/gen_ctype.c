#include <ctype.h>
#include <stdio.h>
int main(){ const unsigned short *t=*__ctype_b_loc(); printf("static const unsigned short verif_ctype_b[384]={"); for(int i=-128;i<256;i++) printf("%u,",t[i]); printf("};\n");
 const int *l=*__ctype_tolower_loc(); printf("static const int verif_ctype_lower[384]={"); for(int i=-128;i<256;i++) printf("%d,",l[i]); printf("};\n"); return 0;}
