#include "libeconf.h"
#include "keyfile.h"
#include "helpers.h"
#include "defines.h"
#include <string.h>
#include <assert.h>
#include "stubs/vfs.h"
_Bool nondet_bool(void);
extern int rd_log[]; extern int rd_nlog;
#define P(x) (nondet_bool()?VK_FILE:VK_ABSENT)
int main(void) {
  int u = vfs_add("/u", "u", -1, VK_DIR, 0);
  int e = vfs_add("/e", "e", -1, VK_DIR, 0);
  int um = vfs_add("/u/c.conf", "c.conf", u, P(), 0);
  int em = vfs_add("/e/c.conf", "c.conf", e, P(), 0);
  int ud = vfs_add("/u/c.conf.d", "c.conf.d", u, nondet_bool()?VK_DIR:VK_ABSENT, 0);
  int ed = vfs_add("/e/c.conf.d", "c.conf.d", e, nondet_bool()?VK_DIR:VK_ABSENT, 0);
  int ua = vfs_add("/u/c.conf.d/9.conf", "9.conf", ud, P(), 0);
  int ub = vfs_add("/u/c.conf.d/10.conf", "10.conf", ud, P(), 0);
  int ux = vfs_add("/u/c.conf.d/x.con", "x.con", ud, P(), 0);
  int ea = vfs_add("/e/c.conf.d/9.conf", "9.conf", ed, P(), 0);
  int eb = vfs_add("/e/c.conf.d/10.conf", "10.conf", ed, P(), 0);
  int ex = vfs_add("/e/c.conf.d/.conf", ".conf", ed, P(), 0);
  econf_file **kfs = 0; size_t size = 0;
  econf_err r = econf_readDirsHistory(&kfs, &size, "/u", "/e", "c", "conf", "=", "#");
  /* expected consulted sequence */
  int exp[8]; int n = 0;
  int pu_d = vfs[ud].kind==VK_DIR, pe_d = vfs[ed].kind==VK_DIR;
  if (vfs[em].kind) exp[n++]=em; else if (vfs[um].kind) exp[n++]=um;
  if (pu_d) { if (vfs[ub].kind) exp[n++]=ub; if (vfs[ua].kind) exp[n++]=ua; }   /* "10.conf" < "9.conf" bytewise */
  if (pe_d) { if (vfs[eb].kind) exp[n++]=eb; if (vfs[ea].kind) exp[n++]=ea; }
  if (n == 0) { assert(r == ECONF_NOFILE); assert(kfs == 0); }
  else {
    assert(r == ECONF_SUCCESS);
    assert(size == (size_t)n);
    for (int i = 0; i < n; i++) assert(strcmp(kfs[i]->path, vfs[exp[i]].path) == 0);
  }
#ifdef WITNESS
  assert(0);
#endif
  return 0;
}
