#!/bin/bash
# runs every quick (or $1) check in sequence, prints one line per property
tier=${1:-quick}
for p in C01 C02 C03 C04 C05 C06 C07 C08 C09 C10 C11 C12 C13 C14 C15 C16 C17 C18 C19 C20; do
  s=$(date +%s); out=$(timeout 1500 ./check $p --tier $tier 2>&1); rc=$?; e=$(date +%s)
  echo "$p rc=$rc $((e-s))s $(echo "$out" | grep -E '^SUMMARY' | cut -c1-220)"
  echo "$out" | grep -E "^VIOLATION|^INCONCLUSIVE|^KNOWN-FINDING" | cut -c1-160 | head -4
done
