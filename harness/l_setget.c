/* L-setget (C14): a value of VLEN characters set through the API is returned whole by the plain and
 * by the extended getter (scaled BUFSIZ). */
#ifndef VLEN
#define VLEN 8
#endif
#define NIN 1
#define VERIF_MAIN
#include "verif.h"
#include "vfs.h"
#include "lib_all.h"
void harness(void) {
  char v[VLEN + 1];
  for (int i = 0; i < VLEN; i++) v[i] = (char)('a' + i % 26);
  v[VLEN] = 0;
  econf_file *kf = NULL;
  ASSUME(econf_newKeyFile_with_options(&kf, "") == ECONF_SUCCESS && kf != NULL);
  CHECK(econf_setStringValue(kf, "s", "k", v) == ECONF_SUCCESS, "set");
  char *g = NULL;
  CHECK(econf_getStringValue(kf, "s", "k", &g) == ECONF_SUCCESS && g != NULL && strlen(g) == VLEN && strcmp(g, v) == 0, "plain getter returns the whole value");
  free(g);
  econf_ext_value *x = NULL;
  CHECK(econf_getExtValue(kf, "s", "k", &x) == ECONF_SUCCESS && x != NULL, "extended getter");
  if (x) {
    CHECK(x->values[0] != NULL && strlen(x->values[0]) == VLEN && strcmp(x->values[0], v) == 0 && x->values[1] == NULL, "extended getter returns the whole value (no truncation at the stdio buffer size)");
    econf_freeExtValue(x);
  }
  econf_freeFile(kf);
  REACH("end");
}
