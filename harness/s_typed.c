/* S-typed (C08): typed setter followed by the matching getter, value fully symbolic.
 * TYPE_* selects the instantiation.  Integer/float formatting and parsing are axiomatised
 * (env/libc_model.c tokens); what is decided about the library: conversion specifier, conversion
 * function, width and signedness of the receiving variable, boolean canonicalisation. */
#define NIN 24
#define VERIF_MAIN
#include "verif.h"
#include "vfs.h"
#include "lib_all.h"
#include <math.h>

static econf_file *fresh(void) {
  econf_file *kf = NULL;
#ifdef USE_NEWKEYFILE
  econf_err e = econf_newKeyFile(&kf, '=', '#');
#else
  econf_err e = econf_newKeyFile_with_options(&kf, "");
#endif
  ASSUME(e == ECONF_SUCCESS && kf != NULL);
  return kf;
}
static const char *GRP[3] = { NULL, "g", "[g]" };

void harness(void) {
  econf_file *kf = fresh();
  const char *gs = GRP[IN8(16) % 3], *gg = GRP[IN8(17) % 3];   /* group spelling at set / at get */
  if ((gs == NULL) != (gg == NULL)) { gs = gg; }
  /* an unrelated entry first, so that the slot is not index 0 */
  if (INB(18)) { econf_err e0 = econf_setStringValue(kf, "o", "k", "zz"); CHECK(e0 == ECONF_SUCCESS, "set other"); }
#if defined(TYPE_INT)
  int32_t v = (int32_t)IN32(0), r = 0;
  CHECK(econf_setIntValue(kf, gs, "k", v) == ECONF_SUCCESS, "setInt succeeds");
  CHECK(econf_getIntValue(kf, gg, "k", &r) == ECONF_SUCCESS, "getInt succeeds");
  CHECK(r == v, "int32 round trip exact");
  if (v == INT32_MIN) REACH("INT32_MIN"); if (v == INT32_MAX) REACH("INT32_MAX");
#elif defined(TYPE_INT64)
  int64_t v = (int64_t)IN64(0), r = 0;
  CHECK(econf_setInt64Value(kf, gs, "k", v) == ECONF_SUCCESS, "setInt64 succeeds");
  CHECK(econf_getInt64Value(kf, gg, "k", &r) == ECONF_SUCCESS, "getInt64 succeeds");
  CHECK(r == v, "int64 round trip exact");
  if (v == INT64_MIN) REACH("INT64_MIN"); if (v > (int64_t)1 << 40) REACH("beyond 32 bit");
#elif defined(TYPE_UINT)
  uint32_t v = IN32(0), r = 0;
  CHECK(econf_setUIntValue(kf, gs, "k", v) == ECONF_SUCCESS, "setUInt succeeds");
  CHECK(econf_getUIntValue(kf, gg, "k", &r) == ECONF_SUCCESS, "getUInt succeeds");
  CHECK(r == v, "uint32 round trip exact");
  if (v == UINT32_MAX) REACH("UINT32_MAX"); if (v > (uint32_t)INT32_MAX) REACH("above INT32_MAX");
#elif defined(TYPE_UINT64)
  uint64_t v = IN64(0), r = 0;
  CHECK(econf_setUInt64Value(kf, gs, "k", v) == ECONF_SUCCESS, "setUInt64 succeeds");
  CHECK(econf_getUInt64Value(kf, gg, "k", &r) == ECONF_SUCCESS, "getUInt64 succeeds");
  CHECK(r == v, "uint64 round trip exact");
  if (v == UINT64_MAX) REACH("UINT64_MAX"); if (v > (uint64_t)INT64_MAX) REACH("above INT64_MAX");
#elif defined(TYPE_FLOAT)
  union { uint32_t u; float f; } a, b; a.u = IN32(0); b.f = 0;
  CHECK(econf_setFloatValue(kf, gs, "k", a.f) == ECONF_SUCCESS, "setFloat succeeds");
  CHECK(econf_getFloatValue(kf, gg, "k", &b.f) == ECONF_SUCCESS, "getFloat succeeds");
  if (a.f != a.f) CHECK(b.f != b.f, "NaN reads back as NaN");
  else CHECK(b.u == a.u, "float round trip bit-exact");
  if (a.f != a.f) REACH("NaN"); if (a.f == a.f && a.f != 0 && (a.u & 0x7f800000u) == 0) REACH("subnormal");
#ifndef VERIF_CBMC
  /* native replay only: the solver's counterexample value is arbitrary when the libc axiom (9 significant
     digits round-trip) does not apply; look for a concrete float that fails on the real libc */
  for (uint32_t u = 1; u < 0xff000000u; u += 4093) {
    union { uint32_t u; float f; } x, y; x.u = u; y.f = 0;
    if (x.f != x.f) continue;
    CHECK(econf_setFloatValue(kf, "w", "f", x.f) == ECONF_SUCCESS && econf_getFloatValue(kf, "w", "f", &y.f) == ECONF_SUCCESS && y.u == x.u, "float round trip bit-exact (native sweep over bit patterns)");
  }
#endif
#elif defined(TYPE_DOUBLE)
  union { uint64_t u; double f; } a, b; a.u = IN64(0); b.f = 0;
  CHECK(econf_setDoubleValue(kf, gs, "k", a.f) == ECONF_SUCCESS, "setDouble succeeds");
  CHECK(econf_getDoubleValue(kf, gg, "k", &b.f) == ECONF_SUCCESS, "getDouble succeeds");
  if (a.f != a.f) CHECK(b.f != b.f, "NaN reads back as NaN");
  else CHECK(b.u == a.u, "double round trip bit-exact");
  if (a.f != a.f) REACH("NaN");
#ifndef VERIF_CBMC
  { uint64_t st = 88172645463325252ull;
    for (int it = 0; it < 300000; it++) {
      st ^= st << 13; st ^= st >> 7; st ^= st << 17;
      union { uint64_t u; double f; } x, y; x.u = st; y.f = 0;
      if (x.f != x.f) continue;
      CHECK(econf_setDoubleValue(kf, "w", "f", x.f) == ECONF_SUCCESS && econf_getDoubleValue(kf, "w", "f", &y.f) == ECONF_SUCCESS && y.u == x.u, "double round trip bit-exact (native pseudo-random sweep)");
    } }
#endif
#elif defined(TYPE_BOOL)
  /* accepted spellings in any letter case */
  static const char *W[6] = { "yes", "true", "1", "no", "false", "0" };
  unsigned w = IN8(0) % 6;
  char text[8]; size_t l = strlen(W[w]);
  for (size_t i = 0; i < 6; i++) { char c = i < l ? W[w][i] : 0; if (c >= 'a' && c <= 'z' && (IN8(1 + i) & 1)) c = (char)(c - 32); text[i] = c; }
  text[l] = 0;
  bool r = false;
  CHECK(econf_setBoolValue(kf, gs, "k", text) == ECONF_SUCCESS, "setBool accepts every case variant of the six words");
  CHECK(econf_getBoolValue(kf, gg, "k", &r) == ECONF_SUCCESS, "getBool succeeds");
  CHECK(r == (w < 3), "boolean round trip");
  char *s = NULL;
  CHECK(econf_getStringValue(kf, gg, "k", &s) == ECONF_SUCCESS && s != NULL, "string view");
  CHECK(strcmp(s, w < 3 ? "true" : "false") == 0, "canonical spelling stored");
  free(s);
  if (w == 1 && text[0] == 'T' && text[3] == 'E') REACH("mixed case TRUE");
#else
#error "TYPE_* not selected"
#endif
  econf_freeFile(kf);
  REACH("end");
}
