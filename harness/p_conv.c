/* P-conv (C02, C05, C13, C17, C15-python): the real parser on a file generated from a concrete
 * layout (vlib/convgen.py writes layout.h) whose field characters are symbolic.
 * The expected result is constructed together with the layout (spans into the file), never by
 * parsing.  Template codes:
 *   k key char            K first key char (additionally not '[')
 *   V non-blank plain value char    v plain value interior char (V or blank)
 *   q quoted-text char    c comment-text char (anything but NL/NUL)
 *   S non-blank section-name char   s section-name interior char
 *   b symbolic blank (space or tab) B symbolic blank that is a member of the delimiter set
 *   d symbolic non-blank delimiter   h symbolic comment character
 *   m cont-line char (V minus delimiters)   M cont-line interior (m or blank)
 *   x arbitrary byte except NL/NUL (malformed-line payload)   any other char: literal
 */
#include "layout.h"      /* FLEN, TPL, NEXP, EXP[], NSEC, SEC[], NREL, REL[], EXPECT_ERR, ERR_LINE, DELIM, COMMENT, OPTS */
#define NIN (FLEN + 1)
#define VERIF_MAIN
#include "verif.h"
#include "vfs.h"
#include "lib_all.h"

static char FILEB[FLEN + 1];

static bool in_set(char c, const char *set) { for (; *set; set++) if (*set == c) return true; return false; }
static bool is_sp(char c) { return c == ' ' || (c >= '\t' && c <= '\r'); }
static bool mixed_delim(void) { bool w = false, n = false; for (const char *d = DELIM; *d; d++) { if (is_sp(*d)) w = true; else n = true; } return w && n; }

static bool cls_ok(char code, char c) {
  bool base = c != '\n' && c != 0;
  switch (code) {
    case 'K': return base && !is_sp(c) && !in_set(c, DELIM) && !in_set(c, COMMENT) && c != '[' && c != '"';
    case 'k': return base && !is_sp(c) && !in_set(c, DELIM) && !in_set(c, COMMENT) && c != '"';
    case 'V': return base && !is_sp(c) && !in_set(c, COMMENT) && c != '"';
    case 'W': return base && !is_sp(c) && !in_set(c, COMMENT) && c != '"' && !in_set(c, DELIM);   /* first value char under a mixed delimiter set */
    case 'v': return base && (!is_sp(c) || c == ' ' || c == '\t') && !in_set(c, COMMENT) && c != '"';
    case 'q': return base && c != '"';
    case 'c': return base;
    case 'S': return base && !is_sp(c) && c != ']' && !in_set(c, COMMENT);
    case 's': return base && (!is_sp(c) || c == ' ' || c == '\t') && c != ']' && !in_set(c, COMMENT);
    case 'b': return c == ' ' || c == '\t';
    case 'B': return (c == ' ' || c == '\t') && in_set(c, DELIM);
    case 'd': return !is_sp(c) && c != 0 && in_set(c, DELIM);
    case 'h': return c != 0 && in_set(c, COMMENT);
    case 'm': return base && !is_sp(c) && !in_set(c, COMMENT) && c != '"' && !in_set(c, DELIM);
    case 'n': return base && !is_sp(c) && !in_set(c, COMMENT) && c != '"' && !in_set(c, DELIM) && c != '[';   /* first char of a continuation text */
    case 'M': return base && (!is_sp(c) || c == ' ' || c == '\t') && !in_set(c, COMMENT) && c != '"' && !in_set(c, DELIM);
    case 'x': return base;
    default: return false;
  }
}
static bool is_code(char t) { return t != 0 && in_set(t, "KkVWvqcSsbBdhmnMx"); }

static bool span_is(const char *s, int a, int l) {
  if (s == NULL) return false;
  for (int i = 0; i < l; i++) if (s[i] != FILEB[a + i]) return false;
  return s[l] == 0;
}
/* s equals the pieces joined by '\n' */
static bool pieces_are(const char *s, const short *a, const short *l, int n) {
  if (s == NULL) return n == 1 && l[0] == 0;   /* "key=" : the library stores an empty value as "no value" (NULL); both forms are accepted */
  int o = 0;
  for (int p = 0; p < n; p++) {
    if (p) { if (s[o] != '\n') return false; o++; }
    for (int i = 0; i < l[p]; i++) { if (s[o] != FILEB[a[p] + i]) return false; o++; }
  }
  return s[o] == 0;
}
static bool spans_equal(int a1, int l1, int a2, int l2) {
  if (l1 != l2) return false;
  for (int i = 0; i < l1; i++) if (FILEB[a1 + i] != FILEB[a2 + i]) return false;
  return true;
}

void harness(void) {
  for (int p = 0; p < FLEN; p++) {
    char t = TPL[p];
    if (is_code(t)) { char c = (char)IN8(p); ASSUME(cls_ok(t, c)); FILEB[p] = c; }
    else FILEB[p] = t;
  }
  FILEB[FLEN] = 0;
  for (int r = 0; r < NREL; r++) {
    bool eq = spans_equal(REL[r].a1, REL[r].l1, REL[r].a2, REL[r].l2);
    ASSUME(REL[r].equal ? eq : !eq);
  }
#ifdef RELATIVE
  int wd = vfs_add("/w", -1, VK_DIR);
  int f = vfs_add("/w/f", wd, VK_FILE);
#else
  int f = vfs_add("/f", -1, VK_FILE);
#endif
  vfs_set(f, FILEB, FLEN);
  vfs_set_lines(f, LINE_ENDS, NLINES);      /* every symbolic character is constrained to differ from NL above */
  vfs_commit();

  econf_file *ef = NULL;
  econf_err e = econf_newKeyFile_with_options(&ef, OPTS);
  ASSUME(e == ECONF_SUCCESS && ef != NULL);
#ifdef RELATIVE
  const char *path = VP("/w/f");      /* what the library must report: the absolute path */
  NATIVE_ONLY(if (chdir(VP("/w")) != 0) _exit(99);)
  e = read_file_with_callback(&ef, INB(FLEN) ? "f" : "./f", DELIM, COMMENT, NULL, NULL);
#else
  const char *path = VP("/f");
  e = read_file_with_callback(&ef, path, DELIM, COMMENT, NULL, NULL);
#endif

#if EXPECT_ERR != 0
  CHECK(e == EXPECT_ERR, "malformed line reported with its specific error code");
  CHECK(ef == NULL, "no partial configuration after a parse error");
  {
    char *fn = NULL; uint64_t ln = 0;
    econf_errLocation(&fn, &ln);
    CHECK(ln == ERR_LINE, "error location names the 1-based number of the offending line");
    CHECK(fn != NULL && strcmp(fn, path) == 0, "error location names the file");
    free(fn);
  }
  REACH("parse error reported");
#else
  CHECK(e == ECONF_SUCCESS, "conventional file is read successfully");
  if (e != ECONF_SUCCESS) return;
  CHECK(ef != NULL, "object returned");
  { char *gp = econf_getPath(ef); CHECK(gp != NULL && strcmp(gp, path) == 0, "path query returns the absolute path of the file"); free(gp); }
  /* entries one to one, in file order */
  CHECK(ef->length == NEXP, "exactly the written keys are stored");
  for (int i = 0; i < NEXP; i++) {
    if ((size_t)i >= ef->length) break;
    const struct file_entry *fe = &ef->file_entry[i];
    if (EXP[i].sec < 0) CHECK(strcmp(fe->group, KEY_FILE_NULL_VALUE) == 0, "key before the first header is group-less");
    else CHECK(span_is(fe->group, SEC[EXP[i].sec].a, SEC[EXP[i].sec].l), "key belongs to the section written above it");
    CHECK(span_is(fe->key, EXP[i].key_a, EXP[i].key_l), "key text as written");
    if (EXP[i].nv < 0) CHECK(fe->value == NULL, "key without delimiter has no value");
    else CHECK(pieces_are(fe->value, EXP[i].va, EXP[i].vl, EXP[i].nv), "value as written: outer blanks removed, one pair of quotes stripped, continuation lines joined");
#ifdef CHECK_META
    CHECK(fe->line_number == (uint64_t)EXP[i].line, "line number is the line on which the entry ends");
    if (EXP[i].ncb == 0) CHECK(fe->comment_before_key == NULL, "no comment before the key");
    else CHECK(pieces_are(fe->comment_before_key, EXP[i].cba, EXP[i].cbl, EXP[i].ncb), "comment lines directly preceding the key");
    if (EXP[i].nca == 0) CHECK(fe->comment_after_value == NULL, "no trailing comment");
    else CHECK(pieces_are(fe->comment_after_value, EXP[i].caa, EXP[i].cal, EXP[i].nca), "trailing comment of the line");
#endif
  }
  /* public view: sections in order of first appearance */
  {
    char **groups = NULL; size_t gc = 0;
    econf_err g = econf_getGroups(ef, &gc, &groups);
    if (NSEC == 0) CHECK(g == ECONF_NOGROUP || (g == ECONF_SUCCESS && gc == 0), "no sections listed");
    else {
      CHECK(g == ECONF_SUCCESS && gc == NSEC, "sections listed");
      if (g == ECONF_SUCCESS) {
        for (int i = 0; i < NSEC; i++) { if ((size_t)i >= gc) break; CHECK(span_is(groups[i], SEC[i].a, SEC[i].l), "sections in order of first appearance"); }
      }
    }
    if (g == ECONF_SUCCESS && groups) econf_freeArray(groups);
  }
  /* public view: lookups return the first definition; key listings in file order */
  for (int i = 0; i < NEXP; i++) {
    char grp[FLEN + 3]; const char *g = NULL;
    if (EXP[i].sec >= 0) { int l = SEC[EXP[i].sec].l; for (int j = 0; j < l; j++) grp[j] = FILEB[SEC[EXP[i].sec].a + j]; grp[l] = 0; g = grp; }
    char key[FLEN + 1]; for (int j = 0; j < EXP[i].key_l; j++) key[j] = FILEB[EXP[i].key_a + j]; key[EXP[i].key_l] = 0;
    char *v = (char *)1;
    econf_err r = econf_getStringValue(ef, g, key, &v);
    CHECK(r == ECONF_SUCCESS, "every written key can be looked up");
    const struct exp *fx = &EXP[EXP[i].first];
    if (r == ECONF_SUCCESS) {
      if (fx->nv < 0) CHECK(v == NULL, "lookup of a bare key yields no value");
      else CHECK(pieces_are(v, fx->va, fx->vl, fx->nv), "lookup yields the first definition of the key");
      free(v);
    }
#ifdef CHECK_EXT
    if (i == EXP[i].first) {
      econf_ext_value *x = NULL;
      econf_err xr = econf_getExtValue(ef, g, key, &x);
      CHECK(xr == ECONF_SUCCESS && x != NULL, "extended value available");
      if (xr == ECONF_SUCCESS) {
        CHECK(x->file != NULL && strcmp(x->file, path) == 0, "extended value reports the absolute path of the file");
        CHECK(x->line_number == (uint64_t)fx->line, "extended value reports the line on which the entry ends");
        if (fx->ncb == 0) CHECK(x->comment_before_key == NULL, "ext: no comment before"); else CHECK(pieces_are(x->comment_before_key, fx->cba, fx->cbl, fx->ncb), "ext: preceding comment lines");
        if (fx->nca == 0) CHECK(x->comment_after_value == NULL, "ext: no trailing comment"); else CHECK(pieces_are(x->comment_after_value, fx->caa, fx->cal, fx->nca), "ext: trailing comment");
        /* values[]: value split at '\n', blank-trimmed; a value starting with a quote is one item */
        int n = 0; while (n < 5 && x->values[n]) n++;
        /* "key=" is stored without a value (NULL): then there is no value line */
        bool novalue = fx->nv < 0 || ((size_t)EXP[i].first < ef->length && ef->file_entry[EXP[i].first].value == NULL);
        CHECK(n == (novalue ? 0 : fx->nv), "ext: number of value lines");
        for (int p = 0; p < MAXP; p++) {
          if (p >= fx->nv || p >= n) break;
          int a = fx->va[p], l = fx->vl[p];
          while (l > 0 && is_sp(FILEB[a])) { a++; l--; }
          while (l > 0 && is_sp(FILEB[a + l - 1])) l--;
          CHECK(span_is(x->values[p], a, l), "ext: value line blank-trimmed");
        }
        econf_freeExtValue(x);
      }
    }
#endif
  }
#ifdef CHECK_KEYS
  for (int s = -1; s < NSEC; s++) {
    char grp[FLEN + 3]; const char *g = NULL;
    if (s >= 0) { for (int j = 0; j < SEC[s].l; j++) grp[j] = FILEB[SEC[s].a + j]; grp[SEC[s].l] = 0; g = grp; }
    int cnt = 0; for (int i = 0; i < NEXP; i++) if (EXP[i].sec == s) cnt++;
    char **keys = NULL; size_t kc = 0;
    econf_err r = econf_getKeys(ef, g, &kc, &keys);
    if (cnt == 0) CHECK(r == ECONF_NOKEY, "section without keys lists no keys");
    else {
      CHECK(r == ECONF_SUCCESS && kc == (size_t)cnt, "keys of the section listed");
      if (r == ECONF_SUCCESS) { int j = 0; for (int i = 0; i < NEXP; i++) if (EXP[i].sec == s) { if ((size_t)j < kc) CHECK(span_is(keys[j], EXP[i].key_a, EXP[i].key_l), "keys in file order"); j++; } econf_freeArray(keys); }
    }
  }
#endif
#ifdef ROUNDTRIP
  {
    /* C07: write the parsed object, compare the bytes with the canonical serialisation, read it back */
    int od = vfs_add("/o", -1, VK_DIR); int of = vfs_add("/o/w", od, VK_ABSENT);
    NATIVE_ONLY(vfs_commit();)
    econf_err w = econf_writeFile(ef, VP("/o"), "w");
    CHECK(w == ECONF_SUCCESS, "writing the object succeeds");
    static char out[CLEN + 8];
    long n = vfs_read(of, out, CLEN + 4);
    CHECK(n == CLEN, "written file has the length of the canonical serialisation");
    for (int p = 0; p < CLEN; p++) { char want = CANON[p] < 0 ? (char)(-CANON[p]) : FILEB[CANON[p]]; CHECK(out[p] == want, "written bytes are the canonical serialisation of the object"); }
    vfs_set_lines(of, CANON_ENDS, CNLINES);
    econf_file *back = NULL;
    econf_err r = econf_readFile(&back, VP("/o/w"), DELIM, COMMENT);
    CHECK(r == ECONF_SUCCESS && back != NULL, "the written file is read back successfully");
    if (r == ECONF_SUCCESS && back != NULL) {
      CHECK(back->length == NEXP, "read back: same number of keys");
      for (int i = 0; i < NEXP; i++) {
        if ((size_t)i >= back->length) break;
        const struct file_entry *fe = &back->file_entry[i];
        if (EXP[i].sec < 0) CHECK(strcmp(fe->group, KEY_FILE_NULL_VALUE) == 0, "read back: group-less key stays group-less");
        else CHECK(span_is(fe->group, SEC[EXP[i].sec].a, SEC[EXP[i].sec].l), "read back: key in the same section");
        CHECK(span_is(fe->key, EXP[i].key_a, EXP[i].key_l), "read back: same key");
        if (EXP[i].quoted && EXP[i].nv > 1) CHECK(pieces_are(fe->value, EXP[i].va, EXP[i].vl, EXP[i].nv), "quoted-value-with-continuation: read back: same value");
        else CHECK(pieces_are(fe->value, EXP[i].va, EXP[i].vl, EXP[i].nv), "read back: same value");
        if (EXP[i].nv <= 1) {   /* comments of single-line entries are preserved */
          if (EXP[i].ncb == 0) CHECK(fe->comment_before_key == NULL, "read back: no comment before"); else CHECK(pieces_are(fe->comment_before_key, EXP[i].cba, EXP[i].cbl, EXP[i].ncb), "read back: same comment lines before the key");
          if (EXP[i].nca == 0) CHECK(fe->comment_after_value == NULL, "read back: no trailing comment"); else CHECK(pieces_are(fe->comment_after_value, EXP[i].caa, EXP[i].cal, EXP[i].nca), "read back: same trailing comment");
        }
      }
      char **groups = NULL; size_t gc = 0;
      econf_err g = econf_getGroups(back, &gc, &groups);
      if (NKSEC == 0) CHECK(g == ECONF_NOGROUP || (g == ECONF_SUCCESS && gc == 0), "read back: no sections");
      else {
        CHECK(g == ECONF_SUCCESS && gc == NKSEC, "read back: the key-bearing sections");
        if (g == ECONF_SUCCESS) for (int i = 0; i < NKSEC; i++) { if ((size_t)i >= gc) break; CHECK(span_is(groups[i], SEC[KSEC[i]].a, SEC[KSEC[i]].l), "read back: sections in the same order"); }
      }
      if (g == ECONF_SUCCESS && groups) econf_freeArray(groups);
      econf_freeFile(back);
      REACH("round trip compared");
    }
  }
#endif
  econf_freeFile(ef);
  REACH("parsed and compared");
#endif
}
