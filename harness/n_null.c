/* N (C01, C20): the layered-read entry points called without a configuration name (and, for
 * econf_readConfig*, without a project) must refuse with an error code - not crash - and leak nothing.
 * Symbolic: which entry point, which of the optional string arguments are NULL / empty. */
#define NIN 4
#define VERIF_MAIN
#include "verif.h"
#include "vfs.h"
#include "lib_all.h"
static bool cb(const char *f, const void *d) { (void)f; (void)d; return true; }
void harness(void) {
  int u = vfs_add("/u", -1, VK_DIR); int e_ = vfs_add("/e", -1, VK_DIR); (void)u; (void)e_;
  vfs_commit();
  unsigned ep = IN8(0) % 6;
  const char *suffix = INB(1) ? "conf" : NULL;
  const char *name = INB(2) ? NULL : "";          /* absent or empty configuration name */
  const char *d0 = VP("/u"), *d1 = VP("/e");
  econf_file *res = NULL, **hist = NULL; size_t hs = 0; econf_err e = ECONF_SUCCESS;
  if (ep == 0) e = econf_readDirs(&res, d0, d1, name, suffix, "=", "#");
  if (ep == 1) e = econf_readDirsWithCallback(&res, d0, d1, name, suffix, "=", "#", cb, NULL);
  if (ep == 2) e = econf_readDirsHistory(&hist, &hs, d0, d1, name, suffix, "=", "#");
  if (ep == 3) e = econf_readDirsHistoryWithCallback(&hist, &hs, d0, d1, name, suffix, "=", "#", cb, NULL);
  if (ep == 4) e = econf_readConfig(&res, NULL, "/u", name, suffix, "=", "#");
  if (ep == 5) e = econf_readConfigWithCallback(&res, NULL, "/u", name, suffix, "=", "#", cb, NULL);
  CHECK(e != ECONF_SUCCESS, "a read without configuration name (and project) is refused with an error code");
  CHECK(hist == NULL, "no history");
  if (res) { CHECK(res->length == 0, "no content"); econf_freeFile(res); }
  if (name == NULL) REACH("NULL name refused"); else REACH("empty name refused");
}
