/* D1/D2 (C01, C06, C12, C13, C16, C20): the layered read on a symbolic tree.
 * Real code: all six entry points of lib/libeconf.c, lib/readconfig.c, check_conf_dir /
 * traverse_conf_dirs / merge_econf_files / econf_mergeFiles of lib/mergefiles.c.
 * CBMC mode replaces read_file_with_callback by its contract (established for the real reader by
 * harness r_reader.c); the native replay runs the real reader and parser on a real tree.
 *
 * layout.h (generated): LAYERS, NF, CAND[NF] (drop-in candidate names), PRESENT[LAYERS][NF]
 * (concrete presence pattern), MAINP[LAYERS] / DIRP[LAYERS] (concrete: main file / drop-in directory
 * exists in that layer), SUFFIX_ARG (as passed by the caller, may be NULL), SUFFIX_DOT
 * (".conf" or ""), ENTRY (0 readDirsHistory, 1 readDirsHistoryWithCallback, 2 readDirs,
 * 3 readDirsWithCallback, 4 readConfig, 5 readConfigWithCallback), FAULTS (0/1).
 * Symbolic: the value stored in every file; with FAULTS the kind of failure {callback rejects, malformed,
 * foreign owner} of the one file FAILFILE (concrete index).
 */
#include "layout.h"
#define MAXFILES (LAYERS * (NF + 1))
#define NIN (3 * LAYERS + MAXFILES + 3)
#define VERIF_MAIN
#include "verif.h"
#include "vfs.h"
#ifdef VERIF_CBMC
#define NO_GETFILECONTENTS
#endif
#include "lib_all.h"

enum { V_OK = 0, V_REJECT = 1, V_PARSE = 2, V_OWNER = 3 };
enum { M_ABSENT = 0, M_REGULAR = 1, M_EMPTY = 2, M_DEVNULL = 3 };

static const char *LDIR[3] = { "/u", "/r", "/e" };
struct fileinfo { int node; int layer; int cand; /* -1 main */ unsigned char verdict; bool has_content; const char *base; char key[3]; char val[3]; };
static struct fileinfo FI[MAXFILES];
static int nfi;
static int cb_log[MAXFILES + 2], cb_n;
static const char *cb_data_seen; static bool cb_data_ok = true;
static const char CBDATA[] = "cbdata";

static int file_of_path(const char *p) { for (int i = 0; i < nfi; i++) if (strcmp(vfs[FI[i].node].path, p) == 0) return i; return -1; }

static bool the_callback(const char *filename, const void *data) {
  int i = file_of_path(filename);
  if (data != (const void *)CBDATA) cb_data_ok = false;
  if (cb_n < MAXFILES + 1) cb_log[cb_n++] = i;
  if (i < 0) return true;
  return FI[i].verdict != V_REJECT;
}

#ifdef VERIF_CBMC
/* ---- contract of read_file_with_callback (see harness/r_reader.c for the real one) ---- */
bool file_owner_set, file_group_set, file_permissions_set, allow_follow_symlinks = true;
uid_t file_owner; gid_t file_group; mode_t file_perms_file, file_perms_dir;
static uint64_t stub_line; static char stub_file[64];   /* like the library: a copy of the last scanned file name */
econf_err read_file_with_callback(econf_file **key_file, const char *file_name, const char *delim, const char *comment,
                                  bool (*callback)(const char *, const void *), const void *callback_data) {
  if (key_file == NULL || file_name == NULL || delim == NULL || comment == NULL) return ECONF_ERROR;
  int n = vfs_lookup(file_name);
  if (n < 0) return ECONF_NOFILE;
  vfs_ev(EV_LSTAT, n);
  int i = file_of_path(file_name);
  if (vfs[n].kind == VK_DIR) {
    /* a directory (e.g. "<dir>/."): fopen succeeds on Linux, getline fails at once: success, no content */
    if (callback != NULL && !callback(file_name, callback_data)) return ECONF_PARSING_CALLBACK_FAILED;
    (*key_file)->path = strdup(file_name);
    (*key_file)->delimiter = *delim; (*key_file)->comment = *comment ? comment[0] : '#';
    return ECONF_SUCCESS;
  }
  __CPROVER_assert(i >= 0, "bound: reader called on a path outside the harness tree");
  if (FI[i].verdict == V_OWNER) return ECONF_WRONG_OWNER;                  /* object untouched */
  if (callback != NULL && !callback(file_name, callback_data)) return ECONF_PARSING_CALLBACK_FAILED;   /* object untouched */
  vfs_ev(EV_FOPEN, n);
  { size_t k = 0; for (; k < 63 && file_name[k]; k++) stub_file[k] = file_name[k]; stub_file[k] = 0; stub_line = 0; }
  if (FI[i].verdict == V_PARSE) { stub_line = 1; econf_freeFile(*key_file); *key_file = NULL; return ECONF_MISSING_BRACKET; }
  (*key_file)->path = strdup(file_name);
  (*key_file)->delimiter = *delim; (*key_file)->comment = *comment ? comment[0] : '#';
  if (FI[i].has_content) {
    econf_err e1 = econf_setStringValue(*key_file, NULL, FI[i].key, FI[i].val);
    __CPROVER_assert(e1 == ECONF_SUCCESS, "bound: stub content stored");
  }
  return ECONF_SUCCESS;
}
void last_scanned_file(char **filename, uint64_t *line_nr) { *line_nr = stub_line; *filename = strdup(stub_file); }
#endif

static int l_of(int i) { return FI[i].layer; }
static bool ends_with(const char *name, const char *suf) {
  size_t ln = strlen(name), ls = strlen(suf);
  return ls < ln && strcmp(name + ln - ls, suf) == 0;
}

void harness(void) {
  int lay_node[3], main_fi[3], dd_present[3];
  unsigned char mstate[3];
  const int nl = LAYERS;
  const char *ldirs[3];
#ifdef ROOTMODE
  /* default layer composition: ROOT_PREFIX=/R, usr_subdir "/usr", project "p" -> /R//usr/p, /R//run/p, /R//etc/p */
  for (int a = 0; a < NPREDIRS; a++) vfs_add(PREDIRS[a], -1, VK_DIR);
  for (int l = 0; l < LAYERS; l++) ldirs[l] = LAYERDIR[l];
#else
  if (LAYERS == 2) { ldirs[0] = LDIR[0]; ldirs[1] = LDIR[2]; } else { ldirs[0] = LDIR[0]; ldirs[1] = LDIR[1]; ldirs[2] = LDIR[2]; }
#endif
  /* ---- tree ---- */
  for (int l = 0; l < nl; l++) {
    lay_node[l] = vfs_add(ldirs[l], -1, VK_DIR);
    /* MAINP: 0 no main file, 1 regular file with content, 2 empty file, 3 link to /dev/null */
    mstate[l] = MAINP[l] == 0 ? M_ABSENT : MAINP[l] == 1 ? M_REGULAR : MAINP[l] == 2 ? M_EMPTY : M_DEVNULL;
    dd_present[l] = DIRP[l];
    int mk = mstate[l] == M_ABSENT ? VK_ABSENT : mstate[l] == M_DEVNULL ? VK_LINK : VK_FILE;
    int mn = vfs_add(MAINPATH[l], lay_node[l], mk);
    main_fi[l] = nfi;
    FI[nfi].node = mn; FI[nfi].layer = l; FI[nfi].cand = -1; FI[nfi].has_content = mstate[l] == M_REGULAR; FI[nfi].base = "c" SUFFIX_DOT; nfi++;
  }
  for (int l = 0; l < nl; l++) {
    int dn = vfs_add(DDPATH[l], lay_node[l], dd_present[l] ? VK_DIR : VK_ABSENT);
    for (int c = 0; c < NF; c++) {
      int fn = vfs_add(FPATH[l][c], dn, PRESENT[l][c] ? VK_FILE : VK_ABSENT);
      FI[nfi].node = fn; FI[nfi].layer = l; FI[nfi].cand = c; FI[nfi].has_content = true; FI[nfi].base = CAND[c]; nfi++;
    }
  }
  const bool with_cb = (ENTRY == 1 || ENTRY == 3 || ENTRY == 5);
  for (int i = 0; i < nfi; i++) {
    /* which file fails is concrete per instance (FAILFILE, -1 = none); and how it fails (FAILKIND: 1 callback rejects, 2 malformed, 3 foreign owner) are concrete per instance */
    unsigned v = (FAULTS && i == FAILFILE) ? FAILKIND : V_OK;
    if (!with_cb && v == V_REJECT) v = V_PARSE;
    FI[i].verdict = (unsigned char)v;
    char content[12]; size_t cl = 0;
    /* symbolic content: one group-less entry, key in {k,j}, value one symbolic letter */
    /* first characters are concrete so that "is the string empty" never depends on a symbolic byte */
    FI[i].key[0] = 'k'; FI[i].key[1] = KEYSEL[i]; FI[i].key[2] = 0;   /* which of the keys k1/k2 a file defines is concrete per instance (a symbolic key makes the shape of every merged object symbolic); the value is symbolic */
    FI[i].val[0] = 'v'; FI[i].val[1] = (char)('a' + ((IN8(3 * l_of(i) + 2) >> (2 * (i % 4))) & 3)); FI[i].val[2] = 0;
    if (FI[i].has_content) {
      if (v == V_PARSE) { content[0] = '['; content[1] = 'x'; content[2] = '\n'; cl = 3; }
      else { content[0] = FI[i].key[0]; content[1] = FI[i].key[1]; content[2] = '='; content[3] = FI[i].val[0]; content[4] = FI[i].val[1]; content[5] = '\n'; cl = 6; }
    } else if (v == V_PARSE) FI[i].verdict = V_OK;     /* an empty file cannot be malformed */
    vfs_set(FI[i].node, content, cl);
    if (FI[i].verdict == V_OWNER) vfs_own(FI[i].node, 1, 0);
  }
  vfs_commit();
  bool any_owner = false; for (int i = 0; i < nfi; i++) if (FI[i].verdict == V_OWNER) any_owner = true;
  if (any_owner) econf_requireOwner(0);

  /* ---- reference: consulted sequence ---- */
  int seq[MAXFILES + 1], nseq = 0;
  for (int l = nl - 1; l >= 0; l--) if (mstate[l] != M_ABSENT) { seq[nseq++] = main_fi[l]; break; }
  int order[NF];                        /* candidate indices in byte-wise name order */
  for (int c = 0; c < NF; c++) order[c] = c;
  for (int a = 1; a < NF; a++) { int x = order[a], b = a - 1; while (b >= 0 && strcmp(CAND[order[b]], CAND[x]) > 0) { order[b + 1] = order[b]; b--; } order[b + 1] = x; }
  for (int l = 0; l < nl; l++) {
    if (!dd_present[l]) continue;
    for (int oc = 0; oc < NF; oc++) {
      int c = order[oc];
      if (PRESENT[l][c] && ends_with(CAND[c], SUFFIX_DOT)) seq[nseq++] = LAYERS + l * NF + c;
    }
  }
  /* first failing file, in processing order (main-file probing visits higher layers first, but only
     existing files reach the reader's checks; the main file consulted is seq[0]) */
  int fail_at = -1; econf_err fail_code = ECONF_SUCCESS;
  for (int s = 0; s < nseq; s++) {
    unsigned v = FI[seq[s]].verdict;
    if (v != V_OK) { fail_at = s; fail_code = v == V_REJECT ? ECONF_PARSING_CALLBACK_FAILED : v == V_PARSE ? ECONF_MISSING_BRACKET : ECONF_WRONG_OWNER; break; }
  }
  econf_err expect = nseq == 0 ? ECONF_NOFILE : fail_at >= 0 ? fail_code : ECONF_SUCCESS;

#ifdef SETCONF
  /* the process-wide drop-in directory list (econf_set_conf_dirs) replaces the default "<suffix>.d" */
  { const char *lst[2] = { SETCONF, NULL }; CHECK(econf_set_conf_dirs(lst) == ECONF_SUCCESS, "set process-wide drop-in list"); }
#endif
  /* ---- call ---- */
  econf_file **hist = NULL; size_t hsize = 77; econf_file *res = NULL; econf_err e;
  const char *d0 = VP(ldirs[0]), *d1 = VP(ldirs[nl - 1]);
#if ENTRY == 0
  e = econf_readDirsHistory(&hist, &hsize, d0, d1, "c", SUFFIX_ARG, "=", "#");
#elif ENTRY == 1
  e = econf_readDirsHistoryWithCallback(&hist, &hsize, d0, d1, "c", SUFFIX_ARG, "=", "#", the_callback, CBDATA);
#elif ENTRY == 2
  e = econf_readDirs(&res, d0, d1, "c", SUFFIX_ARG, "=", "#");
#elif ENTRY == 3
  e = econf_readDirsWithCallback(&res, d0, d1, "c", SUFFIX_ARG, "=", "#", the_callback, CBDATA);
#else
  {
#ifdef VERIF_CBMC
    /* literals: large stack buffers are not constant-propagated */
#ifdef ROOTMODE
    const char *opt = "ROOT_PREFIX=/R";
#elif defined(CONFOPT)
    const char *opt = LAYERS == 3 ? "PARSING_DIRS=/u:/r:/e;CONFIG_DIRS=" SUFFIX_DOT ".d" : "PARSING_DIRS=/u:/e;CONFIG_DIRS=" SUFFIX_DOT ".d";
#else
    const char *opt = LAYERS == 3 ? "PARSING_DIRS=/u:/r:/e" : "PARSING_DIRS=/u:/e";
#endif
#else
    char opt[8192];
#ifdef ROOTMODE
    strcpy(opt, "ROOT_PREFIX="); strcat(opt, VP("/R"));
#else
    strcpy(opt, "PARSING_DIRS=");
    for (int l = 0; l < nl; l++) { if (l) strcat(opt, ":"); strcat(opt, VP(ldirs[l])); }
#ifdef CONFOPT
    strcat(opt, ";CONFIG_DIRS=" SUFFIX_DOT ".d");
#endif
#endif
#endif
    e = econf_newKeyFile_with_options(&res, opt);
    ASSUME(e == ECONF_SUCCESS && res != NULL);
#ifdef ROOTMODE
#define PROJ "p"
#define USRSUB "/usr"
#else
#define PROJ NULL
#define USRSUB "/unused"
#endif
#ifdef NAMELESS
    /* drop-ins without a configuration name: the project names the files, drop-ins live in <project>.d */
#if ENTRY == 4
    e = econf_readConfig(&res, "c", USRSUB, INB(3 * LAYERS + MAXFILES + 1) ? NULL : "", SUFFIX_ARG, "=", "#");
#else
    e = econf_readConfigWithCallback(&res, "c", USRSUB, INB(3 * LAYERS + MAXFILES + 1) ? NULL : "", SUFFIX_ARG, "=", "#", the_callback, CBDATA);
#endif
#elif ENTRY == 4
    e = econf_readConfig(&res, PROJ, USRSUB, "c", SUFFIX_ARG, "=", "#");
#else
    e = econf_readConfigWithCallback(&res, PROJ, USRSUB, "c", SUFFIX_ARG, "=", "#", the_callback, CBDATA);
#endif
  }
#endif

  /* ---- compare ---- */
  CHECK(e == expect, "return code: success, file-not-found when nothing exists, or the code of the first failing file");
  if (fail_at >= 0 && fail_code == ECONF_MISSING_BRACKET) {
    /* C13: the error location names the malformed file (and its line), also when it is the n-th drop-in */
    char *fn = NULL; uint64_t ln = 0;
    econf_errLocation(&fn, &ln);
    CHECK(fn != NULL && strcmp(fn, vfs[FI[seq[fail_at]].node].path) == 0 && ln == 1, "error location names the malformed file and line");
    free(fn);
  }
  if (with_cb) {
    int upto = fail_at >= 0 ? fail_at + 1 : nseq;
    /* a file refused by an ownership restriction never reaches the callback */
    if (fail_at >= 0 && FI[seq[fail_at]].verdict == V_OWNER) upto = fail_at;
    CHECK(cb_n == upto, "callback called once per consulted file, up to the first failure");
    for (int s = 0; s < MAXFILES; s++) { if (s >= upto || s >= cb_n) break; CHECK(cb_log[s] == seq[s], "callback receives the exact path of each consulted file in processing order"); }
    CHECK(cb_data_ok, "callback data pointer passed through unchanged");
  }
#if ENTRY <= 1
  if (e == ECONF_SUCCESS) {
    CHECK(hist != NULL && hsize == (size_t)nseq, "history lists exactly the consulted files");
    for (int s = 0; s < MAXFILES; s++) {
      if (s >= nseq || (size_t)s >= hsize) break;
      CHECK(hist[s] != NULL && hist[s]->path != NULL && strcmp(hist[s]->path, vfs[FI[seq[s]].node].path) == 0, "history member carries its own path, in processing order");
      char *v = NULL; econf_err g = econf_getStringValue(hist[s], NULL, FI[seq[s]].key, &v);
      if (FI[seq[s]].has_content) { CHECK(g == ECONF_SUCCESS && v != NULL && v[0] == 'v' && v[1] == FI[seq[s]].val[1] && v[2] == 0, "history member carries its own content"); free(v); }
      else CHECK(g == ECONF_NOKEY, "empty main file contributes no key");
    }
    for (int s = 0; s < MAXFILES; s++) { if ((size_t)s >= hsize) break; econf_freeFile(hist[s]); }
    free(hist);
    REACH("history returned");
  } else {
    CHECK(hist == NULL, "no history handed back on failure");
    REACH("history failure");
  }
#else
  if (e == ECONF_SUCCESS) {
    CHECK(res != NULL, "merged configuration returned");
    /* masking: a consulted file is ignored when a later consulted file has the same name;
       later files override earlier ones key by key */
    for (int kk = 0; kk < 2; kk++) {
      const char *key = kk ? "k1" : "k2";
      int src = -1, src_first_unmasked = -1;
      for (int s = 0; s < nseq; s++) {
        bool masked = false;
        for (int t = s + 1; t < nseq; t++) if (strcmp(FI[seq[s]].base, FI[seq[t]].base) == 0) masked = true;
        if (masked) REACH("masked drop-in");
        if (FI[seq[s]].has_content && FI[seq[s]].key[1] == key[1]) {
          if (!masked) src = seq[s];
          if (!masked || s == 0) src_first_unmasked = seq[s];   /* variant in which the first consulted file is never masked */
        }
      }
      char *v = NULL; econf_err g = econf_getStringValue(res, NULL, key, &v);
      bool ok = src < 0 ? g == ECONF_NOKEY : (g == ECONF_SUCCESS && v != NULL && v[0] == 'v' && v[1] == FI[src].val[1] && v[2] == 0);
      if (src == src_first_unmasked) CHECK(ok, "value comes from the last unmasked consulted file that defines the key; masked and empty files contribute nothing");
      else CHECK(ok, "first-consulted-file-masked: the first consulted file is a drop-in masked by a same-named drop-in of a higher layer and must contribute nothing");
      if (g == ECONF_SUCCESS) free(v);
    }
    char *pth = econf_getPath(res);
    if (nseq > 1) CHECK(pth != NULL && pth[0] == 0, "merged result has the empty path");
    free(pth);
    econf_freeFile(res);
    REACH("merged result returned");
  } else {
    /* failure: no content of any file may be handed back */
    if (res != NULL) {
      CHECK(res->length == 0, "no configuration content handed back on failure");
      econf_freeFile(res);
    }
    REACH("merged failure");
  }
#endif
  if (any_owner) econf_reset_security_settings();
  CBMC_ONLY(CHECK(vfs_open_count == 0, "every opened file was closed");)
  if (nseq == 0) REACH("nothing exists");
  if (mstate[nl - 1] == M_ABSENT && mstate[0] != M_ABSENT) REACH("main file only in the lowest layer");
  if (mstate[nl - 1] == M_DEVNULL) REACH("main file silenced by /dev/null");
}
