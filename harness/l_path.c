/* L-path (C14): a file whose absolute name has PLEN characters (scaled PATH_MAX) is read, its path is
 * reported whole by econf_getPath, and the last-scanned-file record is not overrun; for names shorter
 * than PATH_MAX the error location reports the whole name. */
#ifndef PLEN
#define PLEN 15
#endif
#define NIN 1
#define VERIF_MAIN
#include "verif.h"
#include "vfs.h"
#include "lib_all.h"
void harness(void) {
#ifdef VERIF_CBMC
  static char name[PLEN + 1];
  name[0] = '/';
  for (int i = 1; i < PLEN; i++) name[i] = (char)('a' + i % 26);
  name[PLEN] = 0;
  int f = vfs_add(name, -1, VK_FILE);
  vfs_set(f, "[x\n", 3);          /* malformed: the error location is what records the file name */
  vfs_commit();
  const char *path = name;
#else
  /* natively the replay root is part of the path; the scaled boundary only exists in the CBMC build */
  int f = vfs_add("/f", -1, VK_FILE); vfs_set(f, "[x\n", 3); vfs_commit(); const char *path = VP("/f");
#endif
  econf_file *kf = NULL;
  econf_err e = econf_readFile(&kf, path, "=", "#");
  CHECK(e == ECONF_MISSING_BRACKET && kf == NULL, "malformed file reported");
  char *fn = NULL; uint64_t ln = 0;
  econf_errLocation(&fn, &ln);
  CHECK(fn != NULL && ln == 1, "error location available");
  if (fn) {
    size_t l = strlen(fn);
    if (V_CBMC && PLEN < PATH_MAX) CHECK(strcmp(fn, path) == 0, "error location reports the whole file name");
    else CHECK(strncmp(fn, path, l) == 0, "error location reports a prefix of the name, never anything else");
    free(fn);
  }
  REACH("end");
}
