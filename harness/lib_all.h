/* The library's translation units pulled into the harness TU, so that static functions and
   static state are visible to the harness.  -I/repo/lib -I/repo/include select the sources of
   /repo's current working tree. */
#ifndef _GNU_SOURCE
#define _GNU_SOURCE
#endif
#include <ctype.h>
#include "libeconf.h"
#ifndef NO_GETFILECONTENTS
#include "getfilecontents.c"
#endif
#include "helpers.c"
#include "keyfile.c"
#include "libeconf.c"
#include "libeconf_ext.c"
#include "mergefiles.c"
#include "readconfig.c"
#include "get_value_def.c"
#include "econf_error.c"
