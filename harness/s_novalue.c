/* S-novalue (C09): a key without value (value pointer NULL, as stored by the parser for a bare
 * key): no typed getter may crash or invent a number; numeric getters answer with an error. */
#define NIN 2
#define VERIF_MAIN
#include "verif.h"
#include "vfs.h"
#include "lib_all.h"

void harness(void) {
  econf_file *kf = NULL;
  ASSUME(econf_newKeyFile_with_options(&kf, "") == ECONF_SUCCESS && kf != NULL);
  /* exactly what store() does for "key" without delimiter */
  econf_err e = store(kf, INB(0) ? "s" : NULL, "k", NULL, 1, NULL, NULL, false, false);
  ASSUME(e == ECONF_SUCCESS);
  const char *g = INB(0) ? "s" : NULL;
  unsigned which = IN8(1) % 9;
  if (which == 0) { int32_t r = 7;  CHECK(econf_getIntValue(kf, g, "k", &r) != ECONF_SUCCESS, "int getter refuses a valueless key"); }
  if (which == 1) { int64_t r = 7;  CHECK(econf_getInt64Value(kf, g, "k", &r) != ECONF_SUCCESS, "int64 getter refuses a valueless key"); }
  if (which == 2) { uint32_t r = 7; CHECK(econf_getUIntValue(kf, g, "k", &r) != ECONF_SUCCESS, "uint getter refuses a valueless key"); }
  if (which == 3) { uint64_t r = 7; CHECK(econf_getUInt64Value(kf, g, "k", &r) != ECONF_SUCCESS, "uint64 getter refuses a valueless key"); }
  if (which == 4) { float r = 7;    CHECK(econf_getFloatValue(kf, g, "k", &r) != ECONF_SUCCESS, "float getter refuses a valueless key"); }
  if (which == 5) { double r = 7;   CHECK(econf_getDoubleValue(kf, g, "k", &r) != ECONF_SUCCESS, "double getter refuses a valueless key"); }
  if (which == 6) { bool r = true;  econf_err b = econf_getBoolValue(kf, g, "k", &r); CHECK(b != ECONF_SUCCESS || r == false, "bool getter: error or false"); }
  if (which == 7) { char *r = (char *)1; CHECK(econf_getStringValue(kf, g, "k", &r) == ECONF_SUCCESS && r == NULL, "string getter returns NULL value"); }
  if (which == 8) { int32_t r = 7; econf_err d = econf_getIntValueDef(kf, g, "k", &r, 5); CHECK(d != ECONF_SUCCESS && d != ECONF_NOKEY, "Def getter reports the conversion problem"); }
  econf_freeFile(kf);
  REACH("end");
}
