/* X-replace (C14, C19): econftool's escape translation for --delimiters (replace_str) on an option
 * string of SLEN characters that ends in the two characters backslash-t: the result is the string with
 * that escape replaced by a tab, whatever the length (the function used a fixed 1024-byte buffer). */
#ifndef SLEN
#define SLEN 16
#endif
#define NIN 1
#define VERIF_MAIN
#include "verif.h"
#include "vfs.h"
#define main econftool_main
#include "lib_all.h"
#include "econftool.c"
#undef main
static char in[SLEN + 1];
static char *keep;      /* the tool keeps the translated option string for its lifetime */
void harness(void) {
  for (int i = 0; i < SLEN - 2; i++) in[i] = (char)('a' + i % 26);
  in[SLEN - 2] = '\\'; in[SLEN - 1] = 't'; in[SLEN] = 0;
  char *out = replace_str(in, "\\t", "\t");
  CHECK(out != NULL, "result");
  keep = out;
  bool ok = true;
  for (int i = 0; i < SLEN - 2; i++) if (out[i] != in[i]) ok = false;
  CHECK(ok && out[SLEN - 2] == '\t' && out[SLEN - 1] == 0, "escape translated, the rest of the option string kept whole");
  REACH("end");
}
