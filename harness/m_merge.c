/* M (C03): econf_mergeFiles on two objects with concrete entry counts (NBASE, NOVER) and symbolic content.
 * Entries range over sections {group-less, A, B} x keys {x, y}; values are tagged by origin.
 * Concrete counts keep malloc((NBASE+NOVER)*sizeof(struct file_entry)) exact, so CBMC's bounds check is
 * the anchor's "every write stays below that bound".
 * BASE_CTOR / OVER_CTOR: 0 = built like a parsed file, 1 econf_newKeyFile, 2 econf_newIniFile,
 * 3 econf_newKeyFile_with_options("") (then NBASE / NOVER must be 0).
 */
#ifndef NBASE
#define NBASE 2
#endif
#ifndef NOVER
#define NOVER 2
#endif
#ifndef BASE_CTOR
#define BASE_CTOR 0
#endif
#ifndef OVER_CTOR
#define OVER_CTOR 0
#endif
#define NIN (2 * (NBASE + NOVER) + 1)
#define VERIF_MAIN
#include "verif.h"
#include "vfs.h"
#include "lib_all.h"

static const char *GN[3] = { KEY_FILE_NULL_VALUE, "A", "B" };
static const char *KN[2] = { "x", "y" };
struct ent { unsigned char g, k; };

static econf_file *build(const struct ent *e, size_t n, char tag, int ctor) {
  econf_file *f = NULL;
  if (ctor == 1) { ASSUME(econf_newKeyFile(&f, '=', '#') == ECONF_SUCCESS); return f; }
  if (ctor == 2) { ASSUME(econf_newIniFile(&f) == ECONF_SUCCESS); return f; }
  ASSUME(econf_newKeyFile_with_options(&f, "") == ECONF_SUCCESS && f != NULL);
  if (ctor == 3) return f;
  f->delimiter = '='; f->comment = '#';
  if (n) { f->file_entry = malloc(n * sizeof(struct file_entry)); ASSUME(f->file_entry != NULL); }
  f->length = f->alloc_length = n;
  for (size_t i = 0; i < n; i++) {
    f->file_entry[i].group = setGroupList(f, GN[e[i].g]);
    f->file_entry[i].key = strdup(KN[e[i].k]);
    char v[3] = { tag, (char)('0' + i), 0 };
    f->file_entry[i].value = strdup(v);
    f->file_entry[i].comment_before_key = NULL;
    f->file_entry[i].comment_after_value = NULL;
    f->file_entry[i].line_number = i + 1;
    f->file_entry[i].quotes = false;
  }
  return f;
}
static int grp_of(const char *g) { return strcmp(g, "A") == 0 ? 1 : strcmp(g, "B") == 0 ? 2 : strcmp(g, KEY_FILE_NULL_VALUE) == 0 ? 0 : -1; }
static int key_of(const char *k) { return strcmp(k, "x") == 0 ? 0 : strcmp(k, "y") == 0 ? 1 : -1; }

static void unchanged(const econf_file *f, const struct ent *e, size_t n, char tag, int ctor, const char *who) {
  if (ctor != 0) { CHECK(f->length == 0, "constructor-made input still empty"); return; }
  CHECK(f->length == n && f->alloc_length == n, "input length unchanged");
  for (size_t i = 0; i < n; i++) {
    CHECK(grp_of(f->file_entry[i].group) == e[i].g, "input section unchanged");
    CHECK(key_of(f->file_entry[i].key) == e[i].k, "input key unchanged");
    CHECK(f->file_entry[i].value[0] == tag && f->file_entry[i].value[1] == (char)('0' + i) && f->file_entry[i].value[2] == 0, "input value unchanged");
  }
  (void)who;
}

void harness(void) {
  struct ent b[NBASE + 1], o[NOVER + 1];
  for (int i = 0; i < NBASE; i++) { b[i].g = IN8(2 * i); b[i].k = IN8(2 * i + 1); ASSUME(b[i].g < 3 && b[i].k < 2); }
  for (int i = 0; i < NOVER; i++) { o[i].g = IN8(2 * NBASE + 2 * i); o[i].k = IN8(2 * NBASE + 2 * i + 1); ASSUME(o[i].g < 3 && o[i].k < 2); }
#ifdef GPAT_BASE   /* concrete section pattern per instance, e.g. "012": keeps the section strings concrete */
  { const char *gp = GPAT_BASE; for (int i = 0; i < NBASE; i++) { ASSUME(IN8(2 * i) == gp[i] - '0'); b[i].g = (unsigned char)(gp[i] - '0'); } }
#endif
#ifdef GPAT_OVER
  { const char *gp = GPAT_OVER; for (int i = 0; i < NOVER; i++) { ASSUME(IN8(2 * NBASE + 2 * i) == gp[i] - '0'); o[i].g = (unsigned char)(gp[i] - '0'); } }
#endif
  econf_file *base = build(b, NBASE, 'b', BASE_CTOR), *over = build(o, NOVER, 'o', OVER_CTOR), *m = NULL;

  econf_err e = econf_mergeFiles(&m, base, over);
  CHECK(e == ECONF_SUCCESS && m != NULL, "merge succeeds");
  CHECK(m->length <= NBASE + NOVER, "merged length within base+override");
  CHECK(m->path == NULL, "merged object has no path");

  /* membership tables */
  bool inb[3][2] = { { 0 } }, ino[3][2] = { { 0 } }, bgrp[3] = { 0 }, ogrp[3] = { 0 };
  int bfirst[3][2], ofirst[3][2];
  for (int g = 0; g < 3; g++) for (int k = 0; k < 2; k++) { bfirst[g][k] = -1; ofirst[g][k] = -1; }
  for (int i = 0; i < NBASE; i++) { if (!inb[b[i].g][b[i].k]) bfirst[b[i].g][b[i].k] = i; inb[b[i].g][b[i].k] = true; bgrp[b[i].g] = true; }
  for (int i = 0; i < NOVER; i++) { if (!ino[o[i].g][o[i].k]) ofirst[o[i].g][o[i].k] = i; ino[o[i].g][o[i].k] = true; ogrp[o[i].g] = true; }
  bool base_nogroup_front = true;   /* base's group-less entries form a prefix */
  for (int i = 1; i < NBASE; i++) if (b[i].g == 0 && b[i - 1].g != 0) base_nogroup_front = false;
  bool contiguous = true;           /* no section of base is re-opened */
  for (int i = 0; i < NBASE; i++) for (int j = i + 1; j < NBASE; j++) if (b[i].g == b[j].g && b[j - 1].g != b[j].g) contiguous = false;

  /* first visible entry per (section,key) in the result + structural checks */
  int mfirst[3][2]; for (int g = 0; g < 3; g++) for (int k = 0; k < 2; k++) mfirst[g][k] = -1;
  int mg[NBASE + NOVER + 1], mk[NBASE + NOVER + 1];
  for (size_t i = 0; i < NBASE + NOVER; i++) {
    if (i >= m->length) break;
    int g = grp_of(m->file_entry[i].group), k = key_of(m->file_entry[i].key);
    CHECK(g >= 0 && k >= 0, "merged entry has a known section and key");
    mg[i] = g; mk[i] = k;
    CHECK(inb[g][k] || ino[g][k], "nothing appears that neither input defines");
    CHECK(getFromGroupList(m, m->file_entry[i].group) == m->file_entry[i].group, "merged entry's section is a member of the result's own section list");
    const char *v = m->file_entry[i].value;
    CHECK(v != NULL && (v[0] == 'b' || v[0] == 'o') && v[1] >= '0' && v[2] == 0, "merged value is one of the input values");
    if (mfirst[g][k] < 0) mfirst[g][k] = (int)i;
  }
  for (int g = 0; g < 3; g++) for (int k = 0; k < 2; k++) {
    if (!inb[g][k] && !ino[g][k]) continue;
    CHECK(mfirst[g][k] >= 0, "every key of either input is visible in the result");
    const char *v = m->file_entry[mfirst[g][k]].value;
    if (ino[g][k]) {
      int idx = v[1] - '0';
      CHECK(v[0] == 'o' && idx >= 0 && idx < NOVER && o[idx].g == g && o[idx].k == k, "visible value is the override's definition of that key");
    } else {
      CHECK(v[0] == 'b' && v[1] == (char)('0' + bfirst[g][k]), "visible value is the base's first definition when the override lacks the key");
    }
  }
  /* order clauses */
  for (int g = 0; g < 3; g++) for (int k = 0; k < 2; k++) for (int g2 = 0; g2 < 3; g2++) for (int k2 = 0; k2 < 2; k2++) {
    if (inb[g][k] && inb[g2][k2] && bfirst[g][k] < bfirst[g2][k2])
      CHECK(mfirst[g][k] < mfirst[g2][k2], "base keys keep their relative order");
  }
  for (int g = 0; g < 3; g++) for (int k = 0; k < 2; k++) {
    if (ino[g][k] && !inb[g][k] && bgrp[g] && g != 0) {
      /* override-only key of a base section: inside that section, after a base key of it */
      int p = mfirst[g][k];
      CHECK(p > 0 && mg[p - 1] == g, "override-only key is placed inside its section");
      int fb = -1; for (int i = 0; i < NBASE; i++) if (b[i].g == g) { fb = i; break; }
      CHECK(p > mfirst[g][b[fb].k], "override-only key follows the base keys of its section");
    }
    if (ino[g][k] && !bgrp[g] && g != 0) {
      /* section only the override has: after everything that belongs to base sections */
      for (size_t i = 0; i < NBASE + NOVER; i++) { if (i >= m->length) break; if (bgrp[mg[i]] && mg[i] != 0) CHECK((int)i < mfirst[g][k], "override-only sections come last"); }
    }
  }
  if (base_nogroup_front) {
    bool seen_section = false;
    for (size_t i = 0; i < NBASE + NOVER; i++) { if (i >= m->length) break; if (mg[i] != 0) seen_section = true; else CHECK(!seen_section, "group-less keys stay group-less and first"); }
  }
  unchanged(base, b, NBASE, 'b', BASE_CTOR, "base");
  unchanged(over, o, NOVER, 'o', OVER_CTOR, "override");

  if (NBASE > 0 && NOVER > 0 && !contiguous) REACH("re-opened base section");
  if (NBASE >= 1 && NOVER >= 1 && ino[1][0] && !inb[1][0] && bgrp[1]) REACH("override-only key in a base section");
  if (NOVER >= 1 && ogrp[2] && !bgrp[2]) REACH("override-only section");
  econf_freeFile(m);
  econf_freeFile(base);
  econf_freeFile(over);
  REACH("end");
}
