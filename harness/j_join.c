/* J (C15): the JOIN_SAME_ENTRIES pass (static join_same_entries, reached by including the TU) on an
 * object with NENT entries in one section; KPAT gives the key of each entry ('a'/'b'), EPAT marks
 * empty definitions ('1').  Non-empty values are one symbolic non-blank character.
 * Reference (DESIGN.md 5.2): the value list of a key is the concatenation, in file order, of all its
 * definitions since its last empty definition; lookups use the key's first slot. */
#ifndef NENT
#define NENT 2
#endif
#define NIN (NENT + 1)
#define VERIF_MAIN
#include "verif.h"
#include "vfs.h"
#include "lib_all.h"

void harness(void) {
  static const char kpat[] = KPAT, epat[] = EPAT;
#ifdef SPAT
  static const char spat[] = SPAT;      /* section of each entry ('s' or 't'): sections may re-open */
#else
  static const char spat[] = "ssssssss";
#endif
  econf_file *kf = NULL;
  ASSUME(econf_newKeyFile_with_options(&kf, "") == ECONF_SUCCESS && kf != NULL);
  char vals[NENT][2];
  for (int i = 0; i < NENT; i++) {
    char c = (char)IN8(i);
    ASSUME(c != 0 && c != '\n' && !isspace((unsigned char)c) && c != '"');   /* a value starting with a quote is one item for the extended getter */
    vals[i][0] = epat[i] == '1' ? 0 : c; vals[i][1] = 0;
    const char k[2] = { kpat[i], 0 };
    /* exactly what the parser stores for "key=value" */
    const char sec[2] = { spat[i], 0 };
    econf_err e = store(kf, sec, k, vals[i], (uint64_t)i + 1, NULL, NULL, false, false);
    ASSUME(e == ECONF_SUCCESS);
  }
  kf->join_same_entries = true;
  CHECK(join_same_entries(kf) == ECONF_SUCCESS, "join pass succeeds");

  for (int which = 0; which < 4; which++) {
    const char key[2] = { (char)('a' + which % 2), 0 };
    const char sec[2] = { which < 2 ? 's' : 't', 0 };
    /* reference list */
    char want[2 * NENT + 2]; int o = 0, n = 0, any = 0;
    for (int i = 0; i < NENT; i++) {
      if (kpat[i] != key[0] || spat[i] != sec[0]) continue;
      any = 1;
      if (epat[i] == '1') { o = 0; n = 0; continue; }         /* an empty definition resets the list */
      if (n) want[o++] = '\n';
      want[o++] = vals[i][0]; n++;
    }
    want[o] = 0;
    char *got = NULL;
    econf_err e = econf_getStringValue(kf, sec, key, &got);
    if (!any) { CHECK(e == ECONF_NOKEY, "absent key"); continue; }
    CHECK(e == ECONF_SUCCESS && got != NULL, "key present");
    if (e == ECONF_SUCCESS && got != NULL) {
      CHECK(strcmp(got, want) == 0, "joined value = definitions since the last empty one, in file order");
      free(got);
    }
    econf_ext_value *x = NULL;
    if (econf_getExtValue(kf, sec, key, &x) == ECONF_SUCCESS) {
      int cnt = 0; while (cnt < NENT + 1 && x->values[cnt]) cnt++;
      CHECK(cnt == (n == 0 ? 1 : n), "extended getter lists one item per joined line");
      econf_freeExtValue(x);
    }
    if (n >= 2) REACH("joined");
  }
  econf_freeFile(kf);
  REACH("end");
}
