/* T (C18 replay driver, native only): N threads work on private objects and private files; every
 * thread checks its own results; built with -fsanitize=thread.  ThreadSanitizer reports on the
 * process-wide error-location record and the documented global setters are filtered by the caller. */
#define _GNU_SOURCE
#include <pthread.h>
#include <stdio.h>
#include <stdlib.h>
#include <string.h>
#include <unistd.h>
#include <sys/stat.h>
#include "libeconf.h"
#include "libeconf_ext.h"
#ifndef NTHREADS
#define NTHREADS 4
#endif
static const char *root;
static int failed;
static void *worker(void *arg) {
  long id = (long)arg;
  char dir[4096], file[4200], val[32];
  snprintf(dir, sizeof dir, "%s/t%ld", root, id); mkdir(dir, 0755);
  snprintf(file, sizeof file, "%s/in.conf", dir);
  FILE *f = fopen(file, "w"); if (!f) { failed = 1; return 0; }
  fprintf(f, "# c\nk=%ld\n[s]\nb = Yes\nn=42 # t\nm=a\n b\n", id); fclose(f);
  for (int round = 0; round < 200; round++) {
    econf_file *kf = NULL, *o = NULL, *m = NULL;
    if (econf_readFile(&kf, file, "=", "#") != ECONF_SUCCESS) { failed = 1; break; }
    char *s = NULL; int32_t n = 0; bool b = false; econf_ext_value *x = NULL; char **l = NULL; size_t c = 0;
    snprintf(val, sizeof val, "%ld", id);
    if (econf_getStringValue(kf, NULL, "k", &s) != ECONF_SUCCESS || strcmp(s, val)) failed = 1; free(s);
    if (econf_getIntValue(kf, "s", "n", &n) != ECONF_SUCCESS || n != 42) failed = 1;
    if (econf_getBoolValue(kf, "[s]", "b", &b) != ECONF_SUCCESS || !b) failed = 1;
    if (econf_getExtValue(kf, "s", "m", &x) != ECONF_SUCCESS || !x->values[1]) failed = 1; else econf_freeExtValue(x);
    if (econf_getGroups(kf, &c, &l) != ECONF_SUCCESS || c != 1) failed = 1; else econf_freeArray(l);
    if (econf_getKeys(kf, "s", &c, &l) != ECONF_SUCCESS || c != 3) failed = 1; else econf_freeArray(l);
    if (econf_newKeyFile(&o, '=', '#') != ECONF_SUCCESS) { failed = 1; break; }
    econf_setInt64Value(o, "s", "n", 7 + id); econf_setStringValue(o, NULL, "z", val); econf_setBoolValue(o, "t", "q", "no"); econf_setDoubleValue(o, "t", "d", 0.1 * id);
    if (econf_mergeFiles(&m, kf, o) != ECONF_SUCCESS) failed = 1;
    else {
      int64_t v = 0; if (econf_getInt64Value(m, "s", "n", &v) != ECONF_SUCCESS || v != 7 + id) failed = 1;
      if (econf_writeFile(m, dir, "out.conf") != ECONF_SUCCESS) failed = 1;
    }
    for (int e = 0; e <= ECONF_VALUE_CONVERSION_ERROR; e++) if (!econf_errString((econf_err)e)[0]) failed = 1;
    econf_file *bad = NULL; char bf[4300]; snprintf(bf, sizeof bf, "%s/none.conf", dir);
    if (econf_readFile(&bad, bf, "=", "#") != ECONF_NOFILE) failed = 1;
    econf_freeFile(m); econf_freeFile(o); econf_freeFile(kf);
  }
  return 0;
}
int main(int argc, char **argv) {
  root = argc > 1 ? argv[1] : "/tmp/verif-threads";
  mkdir(root, 0755);
  pthread_t t[NTHREADS];
  for (long i = 0; i < NTHREADS; i++) pthread_create(&t[i], 0, worker, (void *)i);
  for (int i = 0; i < NTHREADS; i++) pthread_join(t[i], 0);
  if (failed) { fprintf(stderr, "THREAD-RESULT-MISMATCH\n"); return 1; }
  fprintf(stderr, "THREADS-OK\n");
  return 0;
}
