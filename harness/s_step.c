/* S-step (C11, C10): one API operation from an arbitrary valid pre-state, compared with a
 * reference ordered map.  Pre-state: LEN entries (concrete), concrete section pattern GPAT over
 * {0 group-less, 1 A, 2 B}, symbolic keys in {x,y} (duplicates allowed, as in parsed files),
 * symbolic values (VL bytes), optional pre-initialised tail (TAIL slots, as econf_newKeyFile makes)
 * and optional extra key-less section (a "[S]" header without keys).  Induction over the
 * representation invariant covers histories of any length (DESIGN.md 6/C11).
 *   OPSET 0: set/get/getDef/list operations with symbolic arguments (C11)
 *   OPSET 1: read-only operations; afterwards the whole object equals its snapshot (C10)
 */
#ifndef LEN
#define LEN 2
#endif
#ifndef GPAT
#define GPAT "01"
#endif
#ifndef TAIL
#define TAIL 0
#endif
#ifndef VL
#define VL 2
#endif
#ifndef OPSET
#define OPSET 0
#endif
#define NIN (LEN * (1 + VL) + 16)
#define VERIF_MAIN
#include "verif.h"
#include "vfs.h"
#include "lib_all.h"

static const char *GNAME[4] = { KEY_FILE_NULL_VALUE, "A", "B", "S" };
static const char *KNAME[3] = { "x", "y", "z" };
/* reference state */
static int rg[LEN + 2], rk[LEN + 2]; static char rv[LEN + 2][VL + 3]; static int rn;
static int rsec[5], rnsec;     /* section list in first-appearance order (named sections only) */

static void ref_addsec(int g) { if (g == 0) return; for (int i = 0; i < rnsec; i++) if (rsec[i] == g) return; rsec[rnsec++] = g; }
static int ref_find(int g, int k) { for (int i = 0; i < rn; i++) if (rg[i] == g && rk[i] == k) return i; return -1; }

static econf_file *build(void) {
  econf_file *f = NULL;
  ASSUME(econf_newKeyFile_with_options(&f, "") == ECONF_SUCCESS && f != NULL);
  f->delimiter = '='; f->comment = '#';
  if (LEN + TAIL > 0) { f->file_entry = malloc((LEN + TAIL) * sizeof(struct file_entry)); ASSUME(f->file_entry != NULL); }
  f->length = LEN; f->alloc_length = LEN + TAIL;
  const char *gp = GPAT;
  for (int i = 0; i < LEN; i++) {
    int g = gp[i] - '0', k = IN8(i * (1 + VL)) & 1;
    f->file_entry[i].group = setGroupList(f, GNAME[g]);
    f->file_entry[i].key = strdup(KNAME[k]);
    char v[VL + 1];
    for (int j = 0; j < VL; j++) v[j] = (char)IN8(i * (1 + VL) + 1 + j);
    v[VL] = 0;
    f->file_entry[i].value = strdup(v);
    f->file_entry[i].comment_before_key = NULL; f->file_entry[i].comment_after_value = NULL;
    f->file_entry[i].line_number = (uint64_t)i + 1; f->file_entry[i].quotes = false;
    rg[i] = g; rk[i] = k; for (int j = 0; j <= VL; j++) rv[i][j] = v[j];
    ref_addsec(g);
  }
  rn = LEN;
#ifdef EXTRA_SECTION
  setGroupList(f, "S"); ref_addsec(3);
#endif
  for (int i = LEN; i < LEN + TAIL; i++) initialize(f, (size_t)i);
  return f;
}

static void same_as_reference(econf_file *f) {
  CHECK(f->length == (size_t)rn, "number of live entries matches the reference map");
  CHECK(f->alloc_length >= f->length, "allocated slots cover the live entries");
  for (int i = 0; i < LEN + 1; i++) {
    if (i >= rn) break;
    CHECK(strcmp(f->file_entry[i].group, GNAME[rg[i]]) == 0, "entry section matches the reference");
    CHECK(getFromGroupList(f, f->file_entry[i].group) == f->file_entry[i].group, "entry section is owned by the object's section list");
    CHECK(strcmp(f->file_entry[i].key, KNAME[rk[i]]) == 0, "entry key matches the reference");
    CHECK(f->file_entry[i].value != NULL && strcmp(f->file_entry[i].value, rv[i]) == 0, "entry value matches the reference");
  }
  /* named sections in first-appearance order */
  int n = 0;
  for (int i = 0; i < 5; i++) {
    if (i >= f->group_count) break;
    if (strcmp(f->groups[i], KEY_FILE_NULL_VALUE) == 0) continue;
    CHECK(n < rnsec && strcmp(f->groups[i], GNAME[rsec[n]]) == 0, "section list matches the reference order");
    n++;
  }
  CHECK(n == rnsec, "section list is complete");
}

static const char *GARG[8] = { NULL, "", "A", "[A]", "B", "[B]", "S", "[S]" };
static int GARG_ID[8] = { 0, 0, 1, 1, 2, 2, 3, 3 };
static const char *KARG[5] = { "x", "y", "z", NULL, "" };

void harness(void) {
  econf_file *f = build();
  const int B0 = LEN * (1 + VL);
  unsigned op = IN8(B0);
  unsigned ga = IN8(B0 + 1) % 8, ka = IN8(B0 + 2) % 5;
  const char *g = GARG[ga], *k = KARG[ka];
  int gid = GARG_ID[ga], kid = (int)ka;
  char nv[VL + 1]; for (int j = 0; j < VL; j++) nv[j] = (char)IN8(B0 + 3 + j); nv[VL] = 0;
  int at = (ka < 3) ? ref_find(gid, kid) : -1;

#if OPSET == 0
  op %= 7;
  if (op == 0) {                       /* setStringValue */
    econf_err e = econf_setStringValue(f, g, k, nv);
    if (ka >= 3) { CHECK(e != ECONF_SUCCESS, "set without key or with empty key is refused"); REACH("set refused"); }
    else {
      CHECK(e == ECONF_SUCCESS, "set succeeds");
      if (at >= 0) { for (int j = 0; j <= VL; j++) rv[at][j] = nv[j]; REACH("overwrite"); }
      else { rg[rn] = gid; rk[rn] = kid; for (int j = 0; j <= VL; j++) rv[rn][j] = nv[j]; rn++; ref_addsec(gid); REACH("create"); }
    }
    same_as_reference(f);
  } else if (op == 1) {                /* getStringValue */
    char *r = (char *)1;
    econf_err e = econf_getStringValue(f, g, k, &r);
    if (ka >= 3) CHECK(e != ECONF_SUCCESS, "get without key is refused");
    else if (at >= 0) { CHECK(e == ECONF_SUCCESS && r != NULL && strcmp(r, rv[at]) == 0, "get returns the stored text"); free(r); REACH("get hit"); }
    else { CHECK(e == ECONF_NOKEY, "get of an absent key reports key-not-found"); REACH("get miss"); }
    same_as_reference(f);
  } else if (op == 2) {                /* getStringValueDef */
    char *r = NULL; char def[3] = { 'd', 'f', 0 };
    econf_err e = econf_getStringValueDef(f, g, k, &r, def);
    if (ka < 3 && at >= 0) { CHECK(e == ECONF_SUCCESS && strcmp(r, rv[at]) == 0, "defaulted get returns the stored text when the key exists"); free(r); }
    else if (ka < 3) { CHECK(e == ECONF_NOKEY && r != NULL && strcmp(r, "df") == 0, "defaulted get returns the default exactly when the key is absent"); free(r); REACH("default used"); }
    else CHECK(e != ECONF_SUCCESS && e != ECONF_NOKEY, "defaulted get without key is refused");
    same_as_reference(f);
  } else if (op == 3) {                /* getGroups */
    char **gs = NULL; size_t n = 99;
    econf_err e = econf_getGroups(f, &n, &gs);
    if (e == ECONF_SUCCESS) {
      CHECK(n == (size_t)rnsec, "section listing has the reference length");
      for (int i = 0; i < 4; i++) { if (i >= rnsec) break; CHECK(strcmp(gs[i], GNAME[rsec[i]]) == 0, "section listing in insertion order"); }
      if (n > 0) { CHECK(gs[n] == NULL, "section listing NULL-terminated"); econf_freeArray(gs); REACH("sections listed"); }
    } else { CHECK(e == ECONF_NOGROUP && rnsec == 0, "no-group only when there is no section"); }
    same_as_reference(f);
  } else if (op == 4) {                /* getKeys */
    char **ks = NULL; size_t n = 99;
    const char *ga2 = GARG[ga & ~1u];   /* listing takes the bare section name */
    econf_err e = econf_getKeys(f, ga2, &n, &ks);
    int cnt = 0;
    for (int i = 0; i < rn; i++) if (rg[i] == gid) cnt++;
    if (cnt == 0) CHECK(e == ECONF_NOKEY && n == 0, "key listing of a section without keys reports no key");
    else {
      CHECK(e == ECONF_SUCCESS && n == (size_t)cnt, "key listing has the reference length");
      int j = 0;
      for (int i = 0; i < LEN; i++) { if (i >= rn) break; if (rg[i] == gid) { CHECK(strcmp(ks[j], KNAME[rk[i]]) == 0, "key listing in insertion order"); j++; } }
      CHECK(ks[n] == NULL, "key listing NULL-terminated");
      econf_freeArray(ks); REACH("keys listed");
    }
    same_as_reference(f);
  } else if (op == 5) {                /* setIntValue / getIntValue pair through the same map slot */
    int32_t v = (int32_t)IN32(B0 + 5), r = 0;
    econf_err e = econf_setIntValue(f, g, k, v);
    if (ka >= 3) CHECK(e != ECONF_SUCCESS, "typed set without key is refused");
    else {
      CHECK(e == ECONF_SUCCESS, "typed set succeeds");
      CHECK(f->length == (size_t)(at >= 0 ? rn : rn + 1), "typed set creates or replaces exactly one entry");
      CHECK(econf_getIntValue(f, g, k, &r) == ECONF_SUCCESS && r == v, "typed get returns the value last set");
    }
  } else {                             /* calls without object */
    char *r = NULL; size_t n; char **l = NULL;
    CHECK(econf_setStringValue(NULL, g, k, nv) != ECONF_SUCCESS, "set without object is refused");
    CHECK(econf_getStringValue(NULL, g, k, &r) != ECONF_SUCCESS, "get without object is refused");
    CHECK(econf_getKeys(NULL, g, &n, &l) != ECONF_SUCCESS, "key listing without object is refused");
    CHECK(econf_getGroups(NULL, &n, &l) != ECONF_SUCCESS, "section listing without object is refused");
    same_as_reference(f);
  }
#else
  /* read-only operations: every one of them must leave the object equal to its snapshot */
  op %= 14;
  if (op == 0) { int32_t r; econf_getIntValue(f, g, k, &r); }
  if (op == 1) { int64_t r; econf_getInt64Value(f, g, k, &r); }
  if (op == 2) { uint32_t r; econf_getUIntValue(f, g, k, &r); }
  if (op == 3) { uint64_t r; econf_getUInt64Value(f, g, k, &r); }
  if (op == 4) { float r; econf_getFloatValue(f, g, k, &r); }
  if (op == 5) { double r; econf_getDoubleValue(f, g, k, &r); }
  if (op == 6) { bool r; econf_getBoolValue(f, g, k, &r); REACH("bool getter ran"); }
  if (op == 7) { char *r = NULL; if (econf_getStringValue(f, g, k, &r) == ECONF_SUCCESS) free(r); }
  if (op == 8) { bool r; econf_getBoolValueDef(f, g, k, &r, true); int32_t i; econf_getIntValueDef(f, g, k, &i, 3); }
  if (op == 9) { char *r = NULL; econf_err e = econf_getStringValueDef(f, g, k, &r, "df"); if (e == ECONF_SUCCESS || e == ECONF_NOKEY) free(r); }
  if (op == 10) { econf_ext_value *x = NULL; if (econf_getExtValue(f, GARG[ga & ~1u], k, &x) == ECONF_SUCCESS) { econf_freeExtValue(x); REACH("ext getter ran"); } }
  if (op == 11) { char **l = NULL; size_t n; if (econf_getGroups(f, &n, &l) == ECONF_SUCCESS) econf_freeArray(l); }
  if (op == 12) { char **l = NULL; size_t n; if (econf_getKeys(f, GARG[ga & ~1u], &n, &l) == ECONF_SUCCESS) econf_freeArray(l); }
  if (op == 13) { char *p = econf_getPath(f); free(p); CHECK(econf_comment_tag(f) == '#' && econf_delimiter_tag(f) == '=', "tags reported"); }
  same_as_reference(f);
  CHECK(f->path == NULL && f->delimiter == '=' && f->comment == '#' && !f->join_same_entries && !f->python_style, "object attributes unchanged");
  for (int i = 0; i < LEN; i++) CHECK(f->file_entry[i].comment_before_key == NULL && f->file_entry[i].comment_after_value == NULL && f->file_entry[i].line_number == (uint64_t)i + 1 && !f->file_entry[i].quotes, "entry metadata unchanged");
#endif
  econf_freeFile(f);
  REACH("end");
}
