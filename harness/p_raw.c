/* P-raw (C04): the real parser on an arbitrary byte string.
 * Symbolic: length L <= PB, PB content bytes (all 256 values), at most PLINES lines.
 * Concrete per instance: delimiter set DELIM, comment set COMMENT, option string OPTS.
 * Checked: CBMC's pointer/bounds/overflow checks in all library code, return code documented,
 * out-pointer NULL on failure, follow-up API calls (FOLLOW) memory safe, everything freed.
 */
#ifndef PB
#define PB 4
#endif
#ifndef PLINES
#define PLINES 2
#endif
#ifndef DELIM
#define DELIM "="
#endif
#ifndef COMMENT
#define COMMENT "#"
#endif
#ifndef OPTMODE
#define OPTMODE 0       /* 0 default, 1 JOIN_SAME_ENTRIES, 2 PYTHON_STYLE */
#endif
#define NIN (PB + 1)
#define VERIF_MAIN
#include "verif.h"
#include "vfs.h"
#include "lib_all.h"

static bool documented(econf_err e) {
  return e == ECONF_SUCCESS || e == ECONF_MISSING_BRACKET || e == ECONF_TEXT_AFTER_SECTION ||
         e == ECONF_EMPTY_SECTION_NAME || e == ECONF_MISSING_DELIMITER;
}

#define MAXE (PLINES)   /* number of lines of the file */
static void list_keys(econf_file *ef, const char *grp) {
  char **keys = NULL; size_t kc = 0;
  if (econf_getKeys(ef, grp, &kc, &keys) != ECONF_SUCCESS) return;
  CHECK(kc <= MAXE, "no more keys than lines");
  for (size_t k = 0; k < MAXE; k++) {
    if (k >= kc) break;
    char *v = NULL;
    econf_err r = econf_getStringValue(ef, grp, keys[k], &v);
    CHECK(r == ECONF_SUCCESS, "every listed key can be fetched");
    free(v);
  }
  econf_freeArray(keys);
}
/* representation invariant I of a parsed object: what the query/merge/write harnesses (S-step, M, W)
   assume about their arbitrary pre-states; established here for every byte string */
static void check_invariant(econf_file *ef) {
  CHECK(ef->length <= MAXE && ef->alloc_length >= ef->length, "I: entry counts consistent");
  CHECK(ef->group_count >= 0 && ef->group_count <= MAXE + 1, "I: section count bounded by the number of lines");
  for (size_t i = 0; i < MAXE; i++) {
    if (i >= ef->length) break;
    const struct file_entry *fe = &ef->file_entry[i];
    CHECK(fe->group != NULL && getFromGroupList(ef, fe->group) == fe->group, "I: entry's section string is owned by the object's section list");
    CHECK(fe->key != NULL && fe->key[0] != 0, "I: key is a non-empty string");
    CHECK(fe->line_number >= 1 && fe->line_number <= MAXE, "I: line number within the file");
    if (fe->value) (void)strlen(fe->value);
    if (fe->comment_before_key) (void)strlen(fe->comment_before_key);
    if (fe->comment_after_value) (void)strlen(fe->comment_after_value);
  }
  for (int g = 0; g < MAXE + 1; g++) { if (g >= ef->group_count) break; CHECK(ef->groups[g] != NULL && ef->groups[g][0] != 0, "I: section names are non-empty strings"); }
  if (ef->group_count > 0) CHECK(ef->groups[ef->group_count] == NULL, "I: section list NULL-terminated");
  CHECK(ef->path != NULL, "I: path recorded");
}
static void follow_getters(econf_file *ef) {
  /* every typed, defaulted and extended getter on the first and the last listed key */
  for (int which = 0; which < 2; which++) {
    if (ef->length == 0) break;
    const struct file_entry *fe = &ef->file_entry[which ? ef->length - 1 : 0];
    const char *g = strcmp(fe->group, KEY_FILE_NULL_VALUE) ? fe->group : NULL, *k = fe->key;
    int32_t i32; int64_t i64; uint32_t u32; uint64_t u64; float fl; double db; bool bo; char *st = NULL;
    econf_getIntValue(ef, g, k, &i32); econf_getInt64Value(ef, g, k, &i64); econf_getUIntValue(ef, g, k, &u32); econf_getUInt64Value(ef, g, k, &u64);
    econf_getFloatValue(ef, g, k, &fl); econf_getDoubleValue(ef, g, k, &db); econf_getBoolValue(ef, g, k, &bo);
    if (econf_getStringValue(ef, g, k, &st) == ECONF_SUCCESS) free(st);
    econf_getIntValueDef(ef, g, k, &i32, 1); econf_getBoolValueDef(ef, g, k, &bo, true);
    econf_ext_value *x = NULL;
    if (econf_getExtValue(ef, g, k, &x) == ECONF_SUCCESS) econf_freeExtValue(x);
  }
}
static void follow_list(econf_file *ef) {
  char **groups = NULL; size_t gc = 0;
  if (econf_getGroups(ef, &gc, &groups) == ECONF_SUCCESS) {
    CHECK(gc <= MAXE, "no more groups than lines");
    for (size_t i = 0; i < MAXE; i++) { if (i >= gc) break; list_keys(ef, groups[i]); }
    econf_freeArray(groups);
  }
  list_keys(ef, NULL);
}

void harness(void) {
#ifdef RAWTPL
  /* line structure concrete (RAWTPL: '.' = any byte except NL, 'N' = NL), bytes symbolic: every
     byte string has exactly one such structure, so the union over all structures of a length is
     the set of all byte strings of that length */
  static const char tpl[] = RAWTPL;
  const size_t L = sizeof(tpl) - 1;
  char data[sizeof(tpl)];
  static short ends[sizeof(tpl) + 1]; int nends = 0;
  for (size_t i = 0; i < L; i++) {
    if (tpl[i] == 'N') { data[i] = '\n'; ends[nends++] = (short)(i + 1); }
    else { data[i] = (char)IN8(1 + i); ASSUME(data[i] != '\n'); }
  }
  if (L > 0 && tpl[L - 1] != 'N') ends[nends++] = (short)L;
  int f = vfs_add("/f", -1, VK_FILE);
  vfs_set(f, data, L);
  vfs_set_lines(f, ends, nends);
  vfs_commit();
#else
  size_t L = IN8(0);
  ASSUME(L <= PB);
  char data[PB + 1];
  int nl = 0;
  for (int i = 0; i < PB; i++) { data[i] = (char)IN8(1 + i); if (data[i] == '\n' && (size_t)i + 1 < L) nl++; }
  ASSUME(nl <= PLINES - 1);
  int f = vfs_add("/f", -1, VK_FILE);
  vfs_set(f, data, L);
  vfs_commit();
#endif

  econf_file *ef = NULL;
  econf_err e = econf_newKeyFile_with_options(&ef, "");
  ASSUME(e == ECONF_SUCCESS && ef != NULL);
  /* parsing options set directly (the option-string tokenizer is C15's subject) */
#if OPTMODE == 1
  ef->join_same_entries = true;
#elif OPTMODE == 2
  ef->python_style = true;
#endif
  e = read_file_with_callback(&ef, VP("/f"), DELIM, COMMENT, NULL, NULL);
  CHECK(documented(e), "read returns success or a documented parse error");
  if (e != ECONF_SUCCESS) {
    CHECK(ef == NULL, "no partial object after a failed read");
    REACH("parse error path");
    return;
  }
  CHECK(ef != NULL, "object returned on success");
#ifdef FOLLOW_LIST
  follow_list(ef);
#endif
#ifdef FOLLOW_GETTERS
  follow_getters(ef);
#endif
#ifdef FOLLOW_MERGE
  {
    econf_file *m1 = NULL, *m2 = NULL, *other = NULL;
    ASSUME(econf_newKeyFile(&other, '=', '#') == ECONF_SUCCESS);
    CHECK(econf_setStringValue(other, "s", "k", "v") == ECONF_SUCCESS, "other object");
    CHECK(econf_mergeFiles(&m1, ef, ef) == ECONF_SUCCESS, "merge with itself");
    CHECK(econf_mergeFiles(&m2, other, ef) == ECONF_SUCCESS, "merge as override");
    econf_freeFile(m1); econf_freeFile(m2);
    CHECK(econf_mergeFiles(&m1, ef, other) == ECONF_SUCCESS, "merge as base");
    econf_freeFile(m1); econf_freeFile(other);
  }
#endif
#ifdef FOLLOW_WRITE
  {
    int od = vfs_add("/o", -1, VK_DIR); int of = vfs_add("/o/w", od, VK_ABSENT);
    NATIVE_ONLY(vfs_commit();)
    econf_err w = econf_writeFile(ef, VP("/o"), "w");
    CHECK(w == ECONF_SUCCESS, "writing the parsed object succeeds");
    econf_file *back = NULL;
    econf_err r = econf_readFile(&back, VP("/o/w"), DELIM, COMMENT);
    CHECK(r == ECONF_SUCCESS || (back == NULL && documented(r)), "reading the written file back: success or a documented error");
    if (back) econf_freeFile(back);
    (void)of;
  }
#endif
  check_invariant(ef);
  if (ef->length > 0) REACH("at least one entry parsed");
  econf_freeFile(ef);
  REACH("success path");
}
