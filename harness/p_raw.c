/* P-raw (C04): the real parser on an arbitrary byte string.
 * Symbolic: length L <= PB, PB content bytes (all 256 values), at most PLINES lines.
 * Concrete per instance: delimiter set DELIM, comment set COMMENT, option string OPTS.
 * Checked: CBMC's pointer/bounds/overflow checks in all library code, return code documented,
 * out-pointer NULL on failure, follow-up API calls (FOLLOW) memory safe, everything freed.
 */
#ifndef PB
#define PB 4
#endif
#ifndef PLINES
#define PLINES 2
#endif
#ifndef DELIM
#define DELIM "="
#endif
#ifndef COMMENT
#define COMMENT "#"
#endif
#ifndef OPTS
#define OPTS ""
#endif
#define NIN (PB + 1)
#define VERIF_MAIN
#include "verif.h"
#include "vfs.h"
#include "lib_all.h"

static bool documented(econf_err e) {
  return e == ECONF_SUCCESS || e == ECONF_MISSING_BRACKET || e == ECONF_TEXT_AFTER_SECTION ||
         e == ECONF_EMPTY_SECTION_NAME || e == ECONF_MISSING_DELIMITER;
}

#define MAXE (PLINES)
static void list_keys(econf_file *ef, const char *grp) {
  char **keys = NULL; size_t kc = 0;
  if (econf_getKeys(ef, grp, &kc, &keys) != ECONF_SUCCESS) return;
  CHECK(kc <= MAXE, "no more keys than lines");
  for (size_t k = 0; k < MAXE; k++) {
    if (k >= kc) break;
    char *v = NULL;
    econf_err r = econf_getStringValue(ef, grp, keys[k], &v);
    CHECK(r == ECONF_SUCCESS, "every listed key can be fetched");
    free(v);
  }
  econf_freeArray(keys);
}
static void follow_list(econf_file *ef) {
  char **groups = NULL; size_t gc = 0;
  if (econf_getGroups(ef, &gc, &groups) == ECONF_SUCCESS) {
    CHECK(gc <= MAXE, "no more groups than lines");
    for (size_t i = 0; i < MAXE; i++) { if (i >= gc) break; list_keys(ef, groups[i]); }
    econf_freeArray(groups);
  }
  list_keys(ef, NULL);
}

void harness(void) {
  size_t L = IN8(0);
  ASSUME(L <= PB);
  char data[PB + 1];
  int nl = 0;
  for (int i = 0; i < PB; i++) { data[i] = (char)IN8(1 + i); if (data[i] == '\n' && (size_t)i + 1 < L) nl++; }
  ASSUME(nl <= PLINES - 1);
  int f = vfs_add("/f", -1, VK_FILE);
  vfs_set(f, data, L);
  vfs_commit();

  econf_file *ef = NULL;
  econf_err e = econf_newKeyFile_with_options(&ef, OPTS);
  ASSUME(e == ECONF_SUCCESS && ef != NULL);
  e = read_file_with_callback(&ef, VP("/f"), DELIM, COMMENT, NULL, NULL);
  CHECK(documented(e), "read returns success or a documented parse error");
  if (e != ECONF_SUCCESS) {
    CHECK(ef == NULL, "no partial object after a failed read");
    REACH("parse error path");
    return;
  }
  CHECK(ef != NULL, "object returned on success");
#ifdef FOLLOW_LIST
  follow_list(ef);
#endif
  if (ef->length > 0) REACH("at least one entry parsed");
  econf_freeFile(ef);
  REACH("success path");
}
