/* E (C13): every error code maps to its own non-empty message from the table. */
#define NIN 2
#define VERIF_MAIN
#include "verif.h"
#include "vfs.h"
#include "lib_all.h"
#define NCODES (ECONF_VALUE_CONVERSION_ERROR + 1)
void harness(void) {
  unsigned a = IN8(0), b = IN8(1);
  ASSUME(a < NCODES && b < NCODES);
  const char *ma = econf_errString((econf_err)a), *mb = econf_errString((econf_err)b);
  CHECK(ma != NULL && ma[0] != 0, "every code has a non-empty message");
  CHECK(strncmp(ma, "Unknown libeconf error", 22) != 0, "every code of the enum has a row in the table (not the fallback text)");
  if (a != b) CHECK(strcmp(ma, mb) != 0, "messages are pairwise distinct");
  CHECK(sizeof(messages) / sizeof(messages[0]) == NCODES, "table has exactly one row per error code");
  CHECK(strcmp(econf_errString(ECONF_SUCCESS), "Success") == 0 && strcmp(econf_errString(ECONF_NOFILE), "Configuration file not found") == 0, "documented messages");
  REACH("end");
}
