/* W-set (C07): a configuration built through the setters (concrete sequence of (section,key) pairs
 * HIST = "A.x,-.y,..." with '-' = group-less; symbolic plain values), written and read back with
 * the object's delimiter and comment character: same key-bearing sections, same keys in each, same
 * values.  Real code: econf_newKeyFile, econf_setStringValue, econf_writeFile, econf_readFile. */
#ifndef NOPS
#define NOPS 2
#endif
#define NIN (2 * NOPS + 1)
#define VERIF_MAIN
#include "verif.h"
#include "vfs.h"
#include "lib_all.h"

static bool plain_char(char c) { return c != 0 && c != '\n' && !isspace((unsigned char)c) && c != '"' && c != CCH && c != DCH && c != '[' ; }

void harness(void) {
  static const char hist[] = HIST;
  const char *SECN[3] = { NULL, "A", "B" };
  int sec[NOPS], key[NOPS]; char val[NOPS][3];
  for (int i = 0; i < NOPS; i++) {
    char s = hist[4 * i], k = hist[4 * i + 2];
    sec[i] = s == '-' ? 0 : s == 'A' ? 1 : 2; key[i] = k == 'x' ? 0 : 1;
#ifdef CONCRETE_VALUES
    /* the writer's output positions depend on string lengths, and a symbolic character may be NUL as
       far as the symbolic execution knows: values are concrete here (one path), the history is what varies */
    val[i][0] = (char)('p' + i); val[i][1] = (char)('0' + (i * 7 + NOPS) % 10); val[i][2] = 0;
    ASSUME(IN8(2 * i) == 0);
#else
    val[i][0] = (char)IN8(2 * i); val[i][1] = (char)IN8(2 * i + 1); val[i][2] = 0;
    ASSUME(plain_char(val[i][0]) && plain_char(val[i][1]));
#endif
  }
  econf_file *kf = NULL;
  ASSUME(econf_newKeyFile(&kf, DCH, CCH) == ECONF_SUCCESS && kf != NULL);
  for (int i = 0; i < NOPS; i++)
    CHECK(econf_setStringValue(kf, SECN[sec[i]], key[i] ? "y" : "x", val[i]) == ECONF_SUCCESS, "set succeeds");

  int od = vfs_add("/o", -1, VK_DIR); int of = vfs_add("/o/w", od, VK_ABSENT);
  vfs_commit();
  CHECK(econf_writeFile(kf, VP("/o"), "w") == ECONF_SUCCESS, "write succeeds");
  /* line structure of the written file (values are constrained to contain no newline); the length is
     asserted, a writer that emits a different structure is caught by the read-back comparison */
  static const short ws_ends[] = WS_ENDS;
  { char tmp[4]; long wl = vfs_read(of, tmp, 0); CHECK(wl == WS_LEN, "written file has the expected length"); }
  vfs_set_lines(of, ws_ends, WS_NENDS);
  const char dstr[2] = { DCH, 0 }, cstr[2] = { CCH, 0 };
  econf_file *back = NULL;
  econf_err r = econf_readFile(&back, VP("/o/w"), dstr, cstr);
  CHECK(r == ECONF_SUCCESS && back != NULL, "written file reads back");
  if (r != ECONF_SUCCESS || back == NULL) return;

  /* reference: last value per (section,key); key order per section = order of first set */
  for (int g = 0; g < 3; g++) {
    int first[2] = { -1, -1 }, last[2] = { -1, -1 };
    for (int i = 0; i < NOPS; i++) if (sec[i] == g) { if (first[key[i]] < 0) first[key[i]] = i; last[key[i]] = i; }
    int nk = (first[0] >= 0) + (first[1] >= 0);
    char **keys = NULL; size_t kc = 77;
    econf_err e = econf_getKeys(back, SECN[g], &kc, &keys);
    if (nk == 0) { CHECK(e == ECONF_NOKEY, "read back: a section that had no key has none"); continue; }
    CHECK(e == ECONF_SUCCESS && kc == (size_t)nk, "read back: same keys in the section (group-less keys stay group-less)");
    if (e == ECONF_SUCCESS) {
      int k0 = (first[0] >= 0 && (first[1] < 0 || first[0] < first[1])) ? 0 : 1;
      if (kc >= 1) CHECK(strcmp(keys[0], k0 ? "y" : "x") == 0, "read back: key order");
      if (kc >= 2) CHECK(strcmp(keys[1], k0 ? "x" : "y") == 0, "read back: key order");
      econf_freeArray(keys);
    }
    for (int k = 0; k < 2; k++) {
      if (last[k] < 0) continue;
      char *v = NULL;
      econf_err ge = econf_getStringValue(back, SECN[g], k ? "y" : "x", &v);
      CHECK(ge == ECONF_SUCCESS && v != NULL && v[0] == val[last[k]][0] && v[1] == val[last[k]][1] && v[2] == 0, "read back: same value");
      if (ge == ECONF_SUCCESS) free(v);
    }
  }
  econf_freeFile(back);
  econf_freeFile(kf);
  REACH("end");
}
