/* O (C15, C20): econf_newKeyFile_with_options on an option string assembled from concrete items
 * (layout.h: NITEMS, ITEMS[] text of each item, KIND[] 0 JOIN 1 PYTHON 2 PARSING_DIRS 3 CONFIG_DIRS
 * 4 ROOT_PREFIX 5 unknown, ORDER symbolic permutation is not used: the order is concrete per instance).
 * Checked: success iff every item is documented; every item has its documented effect, an item given
 * twice acts as its last occurrence; unknown -> ECONF_OPTION_NOT_FOUND; nothing leaks either way. */
#include "layout.h"
#define NIN 1
#define VERIF_MAIN
#include "verif.h"
#include "vfs.h"
#include "lib_all.h"

static bool list_is(char **got, int cnt, const char *const *want, int n) {
  if (cnt != n) return false;
  if (n == 0) return true;
  if (got == NULL) return false;
  for (int i = 0; i < n; i++) if (got[i] == NULL || strcmp(got[i], want[i]) != 0) return false;
  return got[n] == NULL;
}

void harness(void) {
  econf_file *kf = (econf_file *)0;
  econf_err e = econf_newKeyFile_with_options(&kf, OPTSTRING);
  if (EXPECT_UNKNOWN) {
    CHECK(e == ECONF_OPTION_NOT_FOUND, "an item with an unknown name is answered with option-not-found");
    if (kf) econf_freeFile(kf);
    REACH("unknown item refused");
    return;
  }
  CHECK(e == ECONF_SUCCESS && kf != NULL, "an option string of documented items is accepted");
  if (e != ECONF_SUCCESS || kf == NULL) return;
  CHECK(kf->join_same_entries == (bool)EXP_JOIN, "JOIN_SAME_ENTRIES=1 sets (only) the join flag");
  CHECK(kf->python_style == (bool)EXP_PYTHON, "PYTHON_STYLE=1 sets (only) the python flag");
  CHECK(list_is(kf->parse_dirs, kf->parse_dirs_count, EXP_PARSE, EXP_NPARSE), "PARSING_DIRS lists the directories of its last occurrence, in order");
  CHECK(list_is(kf->conf_dirs, kf->conf_count, EXP_CONF, EXP_NCONF), "CONFIG_DIRS lists the postfixes of its last occurrence, in order");
  if (EXP_ROOT == NULL) CHECK(kf->root_prefix == NULL, "no root prefix");
  else CHECK(kf->root_prefix != NULL && strcmp(kf->root_prefix, EXP_ROOT) == 0, "ROOT_PREFIX of the last occurrence");
  CHECK(kf->length == 0 && kf->group_count == 0, "fresh object is empty");
  econf_freeFile(kf);
  REACH("accepted");
}
