/* X (C19): util/econftool.c's own functions (included TU, main renamed).
 *  - pr_key_file (used by 'show' and 'cat'): prints every section, key and value of the object - keys
 *    without a group included - in listing order and nothing else (stdout captured);
 *  - econf_read(show = false) ('syntax'): non-zero exactly when the library reports an error.
 * HIST: concrete history of (section.key) setter calls building the object; values concrete (one of
 * them multi-line); SYNTAX_FILE: content of a single file for the syntax check. */
#ifndef NOPS
#define NOPS 2
#endif
#define NIN 2
#define VERIF_MAIN
#include "verif.h"
#include "vfs.h"
#define main econftool_main
#include "lib_all.h"
#include "econftool.c"
#undef main

static char expect[VFS_OUTCAP + 1]; static size_t en;
static void ex(const char *s) { for (; *s; s++) if (en < VFS_OUTCAP) expect[en++] = *s; expect[en] = 0; }

static bool same(const char *a, const char *b) { for (int q = 0; q < VFS_OUTCAP; q++) { if (a[q] != b[q]) return false; if (a[q] == 0) return true; } return true; }

void harness(void) {
  static const char hist[] = HIST;
  const char *SECN[3] = { NULL, "A", "B" };
  int sec[NOPS], key[NOPS]; char val[NOPS][6];
  econf_file *kf = NULL;
  ASSUME(econf_newKeyFile(&kf, '=', '#') == ECONF_SUCCESS && kf != NULL);
  for (int i = 0; i < NOPS; i++) {
    char s = hist[4 * i], k = hist[4 * i + 2];
    sec[i] = s == '-' ? 0 : s == 'A' ? 1 : 2; key[i] = k == 'x' ? 0 : 1;
    val[i][0] = (char)('p' + i); val[i][1] = 0;
    if (i == 1) { val[i][1] = '\n'; val[i][2] = ' '; val[i][3] = 'w'; val[i][4] = 0; }     /* a two-line value */
    CHECK(econf_setStringValue(kf, SECN[sec[i]], key[i] ? "y" : "x", val[i]) == ECONF_SUCCESS, "set");
  }
  /* expected output: group-less keys first, then the sections in order of first appearance */
  int order[3] = { 0, -1, -1 }, no = 1;
  for (int i = 0; i < NOPS; i++) if (sec[i] != 0 && order[1] != sec[i] && order[2] != sec[i]) order[no++] = sec[i];
  for (int g = 0; g < no; g++) {
    int first[2] = { -1, -1 }, last[2] = { -1, -1 };
    for (int i = 0; i < NOPS; i++) if (sec[i] == order[g]) { if (first[key[i]] < 0) first[key[i]] = i; last[key[i]] = i; }
    if (first[0] < 0 && first[1] < 0) continue;
    if (order[g] != 0) { ex(SECN[order[g]]); ex("\n"); }
    int k0 = (first[0] >= 0 && (first[1] < 0 || first[0] < first[1])) ? 0 : 1;
    for (int t = 0; t < 2; t++) {
      int k = t == 0 ? k0 : 1 - k0;
      if (last[k] < 0) continue;
      ex(k ? "y" : "x"); ex(" = ");
      const char *v = val[last[k]];
      if (v[1] == '\n') { char a[2] = { v[0], 0 }; ex(a); ex("\n     "); ex(v + 3); ex("\n"); }
      else { ex(v); ex("\n"); }
    }
    ex("\n");
  }
#ifndef VERIF_CBMC
  fflush(stdout);
  char capf[4200]; snprintf(capf, sizeof capf, "%s", VP("/stdout.txt"));
  if (!freopen(capf, "w", stdout)) _exit(99);
#endif
  econf_err pe = pr_key_file(kf);
  CHECK(pe == ECONF_SUCCESS, "printing succeeds");
#ifdef VERIF_CBMC
  vfs_out[vfs_out_n] = 0;
  const char *got = vfs_out;
#else
  fflush(stdout);
  static char gotbuf[VFS_OUTCAP + 64]; FILE *cf = fopen(capf, "r"); size_t gn = cf ? fread(gotbuf, 1, sizeof gotbuf - 1, cf) : 0; gotbuf[gn] = 0; if (cf) fclose(cf);
  const char *got = gotbuf;
#endif
  CHECK(same(got, expect), "show prints every section, key and value (keys without a group included) in listing order and nothing else");
  econf_freeFile(kf);

  /* syntax: exit status follows the library's verdict */
  int f = vfs_add("/f", -1, VK_FILE);
  static const char good[] = "a=1\n", bad[] = "[a\n";
  bool mal = INB(0);
  vfs_set(f, mal ? bad : good, mal ? 3 : 4);
  vfs_commit();
  NATIVE_ONLY(snprintf(conf_filename, sizeof conf_filename, "%s", VP("/f"));)
  CBMC_ONLY(conf_filename[0] = '/'; conf_filename[1] = 'f'; conf_filename[2] = 0;)
  econf_file *k2 = NULL;
  int rc = econf_read(&k2, "=", "#", false);
  CHECK((rc != 0) == mal, "syntax check fails exactly when the library reports an error");
  if (mal) { char *fn = NULL; uint64_t ln = 0; econf_errLocation(&fn, &ln); CHECK(ln == 1 && fn != NULL, "error location available for the message"); free(fn); REACH("malformed file refused"); }
  if (k2) econf_freeFile(k2);
  REACH("end");
}
