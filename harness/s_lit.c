/* S-lit (C09): stored text = symbolic integer literal [sign][0|0x|0X]digits, nothing after.
 * Oracle: mathematical value computed by the harness (magnitude in 128 bits).  Every integer getter
 * and its Def variant must return exactly that value when representable, an error otherwise.
 * strto* are the reference models of env/libc_model.c, so the formula contains the library's own
 * narrowing assignment and its ERANGE/endptr tests. */
#ifndef ND
#define ND 6            /* number of digit positions */
#endif
#ifndef BASEK
#define BASEK 0         /* 0 decimal, 1 octal (leading 0), 2 hex (0x), 3 hex (0X) */
#endif
#ifndef PREFIX
#define PREFIX ""       /* concrete leading digits (keeps decimal instances near a type limit cheap) */
#endif
#define NIN (ND + 3)
#define VERIF_MAIN
#include "verif.h"
#include "vfs.h"
#include "lib_all.h"

typedef unsigned __int128 u128;

void harness(void) {
  unsigned sign = IN8(0) % 3;          /* 0 none, 1 '-', 2 '+' */
  unsigned nd = IN8(1);                /* digits actually used */
  ASSUME(nd <= ND && (nd >= 1 || sizeof(PREFIX) > 1));
  const unsigned base = BASEK == 0 ? 10 : BASEK == 1 ? 8 : 16;
  char text[ND + 4 + sizeof(PREFIX)]; size_t o = 0;
  if (sign == 1) text[o++] = '-'; else if (sign == 2) text[o++] = '+';
  if (BASEK >= 1) text[o++] = '0';
  if (BASEK == 2) text[o++] = 'x';
  if (BASEK == 3) text[o++] = 'X';
  u128 mag = 0;
  for (unsigned i = 0; i + 1 < sizeof(PREFIX); i++) {
    char c = PREFIX[i]; unsigned d = c <= '9' ? (unsigned)(c - '0') : (unsigned)((c | 32) - 'a' + 10);
    text[o++] = c; mag = mag * base + d;
  }
  for (unsigned i = 0; i < ND; i++) {
    if (i >= nd) break;
    unsigned d = IN8(2 + i);
    ASSUME(d < base);
    if (BASEK == 0 && i == 0 && nd > 1 && sizeof(PREFIX) == 1) ASSUME(d != 0);     /* a leading 0 would make it octal */
    bool upper = BASEK == 3;
    text[o++] = (char)(d < 10 ? '0' + d : (upper ? 'A' : 'a') + (d - 10));
    mag = mag * base + d;
  }
  text[o] = 0;
  bool neg = sign == 1;

  econf_file *kf = NULL;
  ASSUME(econf_newKeyFile_with_options(&kf, "") == ECONF_SUCCESS && kf != NULL);
  CHECK(econf_setStringValue(kf, NULL, "k", text) == ECONF_SUCCESS, "store literal");

#define IN_RANGE_S(bits) (neg ? mag <= ((u128)1 << ((bits) - 1)) : mag < ((u128)1 << ((bits) - 1)))
#define IN_RANGE_U(bits) (neg ? mag == 0 : mag < ((u128)1 << (bits)))
#if defined(GET_INT)
  int32_t r = 12345; econf_err e = econf_getIntValue(kf, NULL, "k", &r);
  if (IN_RANGE_S(32)) { CHECK(e == ECONF_SUCCESS, "representable int32 literal accepted"); CHECK((int64_t)r == (neg ? -(int64_t)mag : (int64_t)mag), "int32 value exact"); REACH("in range"); }
  else { CHECK(e != ECONF_SUCCESS, "out-of-range int32 literal refused, not wrapped"); REACH("out of range"); }
  int32_t d = 777; econf_err e2 = econf_getIntValueDef(kf, NULL, "k", &d, 5);
  CHECK(e2 == e && (e != ECONF_SUCCESS || d == r), "Def variant agrees");
#elif defined(GET_INT64)
  int64_t r = 12345; econf_err e = econf_getInt64Value(kf, NULL, "k", &r);
  if (IN_RANGE_S(64)) { CHECK(e == ECONF_SUCCESS, "representable int64 literal accepted"); CHECK(r == (neg ? (int64_t)(0 - (uint64_t)mag) : (int64_t)mag), "int64 value exact"); REACH("in range"); }
  else { CHECK(e != ECONF_SUCCESS, "out-of-range int64 literal refused, not wrapped"); REACH("out of range"); }
  int64_t d = 777; econf_err e2 = econf_getInt64ValueDef(kf, NULL, "k", &d, 5);
  CHECK(e2 == e && (e != ECONF_SUCCESS || d == r), "Def variant agrees");
#elif defined(GET_UINT)
  uint32_t r = 12345; econf_err e = econf_getUIntValue(kf, NULL, "k", &r);
  if (IN_RANGE_U(32)) { CHECK(e == ECONF_SUCCESS, "representable uint32 literal accepted"); CHECK((u128)r == mag, "uint32 value exact"); REACH("in range"); }
  else { CHECK(e != ECONF_SUCCESS, "out-of-range or negative uint32 literal refused, not wrapped"); REACH("out of range"); }
  uint32_t d = 777; econf_err e2 = econf_getUIntValueDef(kf, NULL, "k", &d, 5);
  CHECK(e2 == e && (e != ECONF_SUCCESS || d == r), "Def variant agrees");
#elif defined(GET_UINT64)
  uint64_t r = 12345; econf_err e = econf_getUInt64Value(kf, NULL, "k", &r);
  if (IN_RANGE_U(64)) { CHECK(e == ECONF_SUCCESS, "representable uint64 literal accepted"); CHECK((u128)r == mag, "uint64 value exact"); REACH("in range"); }
  else { CHECK(e != ECONF_SUCCESS, "out-of-range or negative uint64 literal refused, not wrapped"); REACH("out of range"); }
  uint64_t d = 777; econf_err e2 = econf_getUInt64ValueDef(kf, NULL, "k", &d, 5);
  CHECK(e2 == e && (e != ECONF_SUCCESS || d == r), "Def variant agrees");
#else
#error "GET_* not selected"
#endif
  econf_freeFile(kf);
  REACH("end");
}
