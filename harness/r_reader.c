/* R (C06, C16, C13-missing-file; contract of the reader used by D1): the real
 * econf_readFileWithCallback -> read_file_with_callback -> read_file on one file.
 * Concrete per instance: KIND (1 regular, 4 symlink to a regular file, 0 absent).
 * Symbolic: owner/group of the file, which restrictions are in force and their values, whether
 * econf_reset_security_settings was called afterwards, the callback's verdict, one value byte.
 */
#ifndef KIND
#define KIND 1
#endif
#define NIN 10
#define VERIF_MAIN
#include "verif.h"
#include "vfs.h"
#include "lib_all.h"

static int cb_calls; static const char *cb_path; static const void *cb_data; static bool cb_verdict;
static const char CBDATA[] = "x";
static int fnode;
static bool the_callback(const char *filename, const void *data) {
  cb_calls++; cb_path = filename; cb_data = data;
  CBMC_ONLY(vfs_ev(EV_CALLBACK, fnode);)
  return cb_verdict;
}

void harness(void) {
  uid_t uid = IN8(0) & 1; gid_t gid = IN8(1) & 1;
  bool req_owner = INB(2), req_group = INB(3), no_links = INB(4), reset = INB(5), use_cb = INB(6);
  uid_t want_uid = IN8(7) & 1; gid_t want_gid = IN8(8) & 1;
  cb_verdict = (IN8(6) >> 1) & 1;
  char v = (char)('a' + (IN8(9) & 3));
  fnode = vfs_add("/f", -1, KIND);
  char content[6] = { 'k', '=', 'v', v, '\n', 0 };
  vfs_set(fnode, content, 5);
  vfs_own(fnode, uid, gid);
  vfs_commit();
  const char *path = VP("/f");

  if (req_owner) econf_requireOwner(want_uid);
  if (req_group) econf_requireGroup(want_gid);
  if (no_links) econf_followSymlinks(false);
  if (reset) econf_reset_security_settings();

  econf_file *kf = (econf_file *)0;
  econf_err e = econf_readFileWithCallback(&kf, path, "=", "#", use_cb ? the_callback : NULL, CBDATA);

  econf_err expect = ECONF_SUCCESS;
  bool restricted = false;
  if (KIND == 0) expect = ECONF_NOFILE;
  else if (!reset && no_links && KIND == 4) { expect = ECONF_ERROR_FILE_IS_SYM_LINK; restricted = true; }
  else if (!reset && req_owner && uid != want_uid) { expect = ECONF_WRONG_OWNER; restricted = true; }
  else if (!reset && req_group && gid != want_gid) { expect = ECONF_WRONG_GROUP; restricted = true; }
  else if (use_cb && !cb_verdict) expect = ECONF_PARSING_CALLBACK_FAILED;

  CHECK(e == expect, "result: file-not-found, the code of the first violated restriction, callback-failed, or success");
  if (e != ECONF_SUCCESS) {
    CHECK(kf == NULL, "a refused file hands back no configuration");
  } else {
    CHECK(kf != NULL, "accepted file is read as usual");
    char *s = NULL;
    CHECK(econf_getStringValue(kf, NULL, "k", &s) == ECONF_SUCCESS && s != NULL && s[0] == 'v' && s[1] == v && s[2] == 0, "content of the accepted file");
    free(s);
    char *p = econf_getPath(kf);
    CHECK(p != NULL && strcmp(p, path) == 0, "path of the file recorded");
    free(p);
    econf_freeFile(kf);
    REACH("file accepted");
  }
  if (KIND != 0) {
    if (restricted || !use_cb) CHECK(cb_calls == 0, "callback not consulted for a file refused by a restriction");
    else {
      CHECK(cb_calls == 1, "callback called exactly once");
      CHECK(cb_path != NULL && cb_data == (const void *)CBDATA, "callback data pointer passed through unchanged");
      REACH("callback consulted");
    }
  }
#ifdef VERIF_CBMC
  /* event order: lstat < callback < fopen; nothing of a refused file is opened */
  int t_lstat = -1, t_cb = -1, t_open = -1;
  for (int i = 0; i < VFS_MAXEV; i++) {
    if (i >= vfs_ev_n) break;
    if (vfs_ev_op[i] == EV_LSTAT && t_lstat < 0) t_lstat = i;
    if (vfs_ev_op[i] == EV_CALLBACK && t_cb < 0) t_cb = i;
    if (vfs_ev_op[i] == EV_FOPEN && t_open < 0) t_open = i;
  }
  if (e != ECONF_SUCCESS) CHECK(t_open < 0, "a refused file is never opened");
  else CHECK(t_lstat >= 0 && t_open > t_lstat && (t_cb < 0 || (t_cb > t_lstat && t_cb < t_open)), "restrictions and callback are evaluated before the file is opened");
  CHECK(vfs_open_count == 0, "file closed");
#endif
  if (restricted) REACH("refused by a restriction");
  if (reset && (req_owner || req_group || no_links)) REACH("restrictions lifted by reset");
  econf_reset_security_settings();
}
