/* S-bool (C09, C10): boolean getter on arbitrary stored text (all byte values, length <= BL).
 * Succeeds exactly on 1/0, yes/no, true/false in any letter case and on the empty value (false);
 * fails on every other text.  Also (C10): the stored text is unchanged afterwards. */
#ifndef BL
#define BL 5
#endif
#define NIN (BL + 1)
#define VERIF_MAIN
#include "verif.h"
#include "vfs.h"
#include "lib_all.h"

static char lc(char c) { return (c >= 'A' && c <= 'Z') ? (char)(c + 32) : c; }
static bool eqi(const char *t, const char *w) { size_t i = 0; for (; w[i]; i++) if (lc(t[i]) != w[i]) return false; return t[i] == 0; }

void harness(void) {
  char text[BL + 1];
  for (int i = 0; i < BL; i++) text[i] = (char)IN8(i);
  text[BL] = 0;
  econf_file *kf = NULL;
  ASSUME(econf_newKeyFile_with_options(&kf, "") == ECONF_SUCCESS && kf != NULL);
  CHECK(econf_setStringValue(kf, "s", "k", text) == ECONF_SUCCESS, "store text");
  bool r = false;
  econf_err e = econf_getBoolValue(kf, "s", "k", &r);
  bool t = eqi(text, "1") || eqi(text, "yes") || eqi(text, "true");
  bool f = eqi(text, "0") || eqi(text, "no") || eqi(text, "false") || text[0] == 0;
  if (t) { CHECK(e == ECONF_SUCCESS && r == true, "true spelling accepted"); REACH("true word"); }
  else if (f) { CHECK(e == ECONF_SUCCESS && r == false, "false spelling accepted"); REACH("false word"); }
  else { CHECK(e != ECONF_SUCCESS, "every other text is refused by the boolean getter"); REACH("non-boolean text"); }
  bool d = true; econf_err e2 = econf_getBoolValueDef(kf, "s", "k", &d, true);
  CHECK(e2 == e && (e != ECONF_SUCCESS || d == r), "Def variant agrees");
  char *s = NULL;
  CHECK(econf_getStringValue(kf, "s", "k", &s) == ECONF_SUCCESS && s != NULL, "string view");
  CHECK(strcmp(s, text) == 0, "boolean query left the stored text unchanged");
  free(s);
  econf_freeFile(kf);
  REACH("end");
}
