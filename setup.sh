#!/bin/bash
# Offline setup: nothing to download or prebuild - every check rebuilds its goto binaries and native
# replay drivers from /repo's current working tree.  Verifies the tools are present.
set -e
cd "$(dirname "$0")"
for t in cbmc goto-cc gcc python3; do command -v $t >/dev/null || { echo "missing tool: $t"; exit 1; }; done
cbmc --version
mkdir -p evidence replays
echo "setup ok"
